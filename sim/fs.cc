// File-layer seam: thin wrappers over the libc entry points that dwgrep,
// libelf, libdw and libdwfl use to reach files.  Being defined in the
// executable they pre-empt libc for every DSO that goes through the PLT.

#include "zsim.hh"

#include <cerrno>
#include <cstdarg>
#include <cstring>
#include <dirent.h>
#include <dlfcn.h>
#include <execinfo.h>
#include <fcntl.h>
#include <set>
#include <sys/mman.h>
#include <sys/stat.h>
#include <unistd.h>

namespace
{
  constexpr int MAXFD = 4096;

  struct override_ent
  {
    std::string backing;
    int open_errno;
    std::vector <std::pair <long, int>> patches;
  };

  bool g_active = false;
  std::string g_tests_dir = "/repo/tests";
  std::string g_fixtures_dir;	// second place to look for a sample file
  std::map <std::string, override_ent> *g_overrides;
  std::set <std::string> *g_primaries;
  std::string *g_fd_vpath[MAXFD];	// non-null: tracked and open
  std::vector <std::pair <long, int>> const *g_fd_patches[MAXFD];
  bool g_fd_was_tracked[MAXFD];		// closed tracked fd, not reissued since
  bool g_fd_closed_by_exe[MAXFD];	// that close came from the executable
  bool g_deny_mmap = false;
  std::vector <std::pair <int, int>> *g_io_faults;
  int g_io_calls = 0;
  bool g_io_fired = false;
  fs_counters g_stats;

  template <class F>
  F
  real (char const *name)
  {
    void *p = dlsym (RTLD_NEXT, name);
    if (p == nullptr)
      {
	fprintf (stderr, "zsim: dlsym(%s) failed\n", name);
	_exit (2);
      }
    return reinterpret_cast <F> (p);
  }

  bool
  is_virtual (char const *path)
  {
    return g_active && path != nullptr && strncmp (path, "/sim/", 5) == 0;
  }

  // "/sim/<n>/rest" -> rest
  std::string
  virt_rest (char const *path)
  {
    char const *p = path + 5;
    char const *slash = strchr (p, '/');
    if (slash == nullptr)
      return "";
    return slash + 1;
  }

  std::string
  default_backing (char const *path)
  {
    typedef int (*access_t) (char const *, int);
    static access_t r_access = real <access_t> ("access");
    std::string rest = virt_rest (path);
    std::string p = g_tests_dir + "/" + rest;
    if (! g_fixtures_dir.empty () && r_access (p.c_str (), F_OK) != 0)
      {
	std::string q = g_fixtures_dir + "/" + rest;
	if (r_access (q.c_str (), F_OK) == 0)
	  return q;
      }
    return p;
  }

  // Returns 0 and sets REAL, or an errno.
  int
  resolve (char const *path, std::string &realp)
  {
    auto it = g_overrides->find (path);
    if (it != g_overrides->end ())
      {
	if (it->second.open_errno != 0)
	  return it->second.open_errno;
	if (it->second.backing.empty ())
	  realp = default_backing (path);
	else
	  realp = it->second.backing;
	return 0;
      }
    realp = default_backing (path);
    return 0;
  }

  void
  apply_patches (int fd, void *buf, ssize_t n, off_t off)
  {
    if (n <= 0 || fd < 0 || fd >= MAXFD || g_fd_patches[fd] == nullptr)
      return;
    for (auto const &p: *g_fd_patches[fd])
      if (p.first >= off && p.first < off + n)
	{
	  static_cast <unsigned char *> (buf)[p.first - off] = (unsigned char) p.second;
	  ++g_stats.patched_bytes;
	}
  }

  int
  do_open (char const *path, int flags, mode_t mode, bool is64)
  {
    typedef int (*open_t) (char const *, int, ...);
    static open_t r_open = real <open_t> ("open");
    static open_t r_open64 = real <open_t> ("open64");
    open_t r = is64 ? r_open64 : r_open;

    if (! is_virtual (path))
      {
	int fd = r (path, flags, mode);
	if (fd >= 0 && fd < MAXFD)
	  g_fd_was_tracked[fd] = false;
	return fd;
      }

    ++g_stats.opens;
    if (g_primaries->find (path) == g_primaries->end ())
      ++g_stats.opens_alt;

    std::string realp;
    if (int e = resolve (path, realp))
      {
	auto it = g_overrides->find (path);
	if (it != g_overrides->end ())
	  ++g_stats.opens_failed_injected;
	errno = e;
	return -1;
      }

    int fd = r (realp.c_str (), flags, mode);
    if (fd >= 0 && fd < MAXFD)
      {
	delete g_fd_vpath[fd];
	g_fd_vpath[fd] = new std::string (path);
	g_fd_was_tracked[fd] = false;
	auto it = g_overrides->find (path);
	g_fd_patches[fd] = (it != g_overrides->end () && ! it->second.patches.empty ())
	  ? &it->second.patches : nullptr;
      }
    return fd;
  }

  // Returns 0 if no fault; else the kind.
  int
  io_fault_now (int fd)
  {
    if (! g_active || fd < 0 || fd >= MAXFD || g_fd_vpath[fd] == nullptr)
      return 0;
    ++g_stats.reads;
    int n = g_io_calls++;
    if (g_io_faults != nullptr)
      for (auto const &f: *g_io_faults)
	if (f.first == n)
	  {
	    g_io_fired = true;
	    return f.second;
	  }
    return 0;
  }
}

void
fs_reset ()
{
  if (g_overrides == nullptr)
    g_overrides = new std::map <std::string, override_ent> ();
  if (g_primaries == nullptr)
    g_primaries = new std::set <std::string> ();
  if (g_io_faults == nullptr)
    g_io_faults = new std::vector <std::pair <int, int>> ();
  g_overrides->clear ();
  g_primaries->clear ();
  g_io_faults->clear ();
  g_deny_mmap = false;
  g_io_calls = 0;
  g_io_fired = false;
  g_stats = fs_counters ();
  g_active = true;
}

void
fs_set_tests_dir (std::string const &dir)
{
  g_tests_dir = dir;
}

void
fs_set_fixtures_dir (std::string const &dir)
{
  g_fixtures_dir = dir;
}

void
fs_add_override (std::string const &vpath, std::string const &backing,
		 int open_errno,
		 std::vector <std::pair <long, int>> const &patches)
{
  (*g_overrides)[vpath] = {backing, open_errno, patches};
}

void
fs_set_deny_mmap (bool deny)
{
  g_deny_mmap = deny;
}

void
fs_arm_io (std::vector <std::pair <int, int>> const &faults)
{
  *g_io_faults = faults;
  g_io_calls = 0;
  g_io_fired = false;
}

void
fs_disarm_io ()
{
  g_io_faults->clear ();
}

bool
fs_io_fired_since_arm ()
{
  return g_io_fired;
}

void
fs_note_primary (std::string const &vpath)
{
  g_primaries->insert (vpath);
}

fs_counters &
fs_stats ()
{
  return g_stats;
}

std::map <int, std::string>
fs_open_tracked ()
{
  std::map <int, std::string> r;
  for (int i = 0; i < MAXFD; ++i)
    if (g_fd_vpath[i] != nullptr)
      r[i] = *g_fd_vpath[i];
  return r;
}

std::vector <int>
fs_all_fds ()
{
  std::vector <int> r;
  DIR *d = opendir ("/proc/self/fd");
  if (d == nullptr)
    return r;
  int dfd = dirfd (d);
  while (struct dirent *e = readdir (d))
    {
      if (e->d_name[0] == '.')
	continue;
      int fd = atoi (e->d_name);
      if (fd != dfd)
	r.push_back (fd);
    }
  closedir (d);
  return r;
}

// ------------------------------------------------------------ wrappers

extern "C" int
open (char const *path, int flags, ...)
{
  mode_t mode = 0;
  if (flags & (O_CREAT | O_TMPFILE))
    {
      va_list ap;
      va_start (ap, flags);
      mode = va_arg (ap, mode_t);
      va_end (ap);
    }
  return do_open (path, flags, mode, false);
}

extern "C" int
open64 (char const *path, int flags, ...)
{
  mode_t mode = 0;
  if (flags & (O_CREAT | O_TMPFILE))
    {
      va_list ap;
      va_start (ap, flags);
      mode = va_arg (ap, mode_t);
      va_end (ap);
    }
  return do_open (path, flags, mode, true);
}

extern "C" int
stat (char const *path, struct stat *st)
{
  typedef int (*stat_t) (char const *, struct stat *);
  static stat_t r = real <stat_t> ("stat");
  if (! is_virtual (path))
    return r (path, st);
  std::string realp;
  if (int e = resolve (path, realp))
    {
      errno = e;
      return -1;
    }
  return r (realp.c_str (), st);
}

// Whether the code at ADDR belongs to the executable (repo + harness objects)
// rather than to a shared library such as libdw.
static bool
in_executable (void *addr)
{
  static void *exe_base = [] {
    Dl_info me;
    return dladdr (reinterpret_cast <void *> (&fs_reset), &me) ? me.dli_fbase : nullptr;
  } ();
  Dl_info info;
  return dladdr (addr, &info) != 0 && info.dli_fbase == exe_base;
}

extern "C" int
close (int fd)
{
  typedef int (*close_t) (int);
  static close_t r = real <close_t> ("close");
  bool by_exe = in_executable (__builtin_return_address (0));
  bool tracked = g_active && fd >= 0 && fd < MAXFD && g_fd_vpath[fd] != nullptr;
  bool was = g_active && fd >= 0 && fd < MAXFD && g_fd_was_tracked[fd];
  if ((tracked || was) && getenv ("ZSIM_DEBUG_CLOSE") != nullptr)
    {
      void *bt[40];
      int n = backtrace (bt, 40);
      fprintf (stderr, "zsim: close(%d) tracked=%d was=%d\n", fd, tracked, was);
      backtrace_symbols_fd (bt, n, 2);
    }
  int ret = r (fd);
  int e = errno;
  if (tracked)
    {
      ++g_stats.closes;
      delete g_fd_vpath[fd];
      g_fd_vpath[fd] = nullptr;
      g_fd_patches[fd] = nullptr;
      g_fd_was_tracked[fd] = true;
      g_fd_closed_by_exe[fd] = by_exe;
    }
  else if (was)
    {
      // A descriptor that we handed out for a plan file and that was closed
      // already is being closed again.
      ++g_stats.double_close;
      if (ret == -1 && e == EBADF)
	{
	  // Only dwgrep's business if dwgrep performed one of the two closes;
	  // elfutils closing its own descriptor twice on an I/O error is not.
	  if (by_exe || g_fd_closed_by_exe[fd])
	    ++g_stats.close_ebadf;
	  else
	    ++g_stats.close_ebadf_in_libs;
	}
      g_fd_was_tracked[fd] = false;
    }
  errno = e;
  return ret;
}

extern "C" int
dup (int fd)
{
  typedef int (*dup_t) (int);
  static dup_t r = real <dup_t> ("dup");
  int nfd = r (fd);
  if (g_active && nfd >= 0 && nfd < MAXFD)
    {
      g_fd_was_tracked[nfd] = false;
      if (fd >= 0 && fd < MAXFD && g_fd_vpath[fd] != nullptr)
	{
	  delete g_fd_vpath[nfd];
	  g_fd_vpath[nfd] = new std::string (*g_fd_vpath[fd]);
	  g_fd_patches[nfd] = g_fd_patches[fd];
	}
    }
  return nfd;
}

extern "C" ssize_t
read (int fd, void *buf, size_t n)
{
  typedef ssize_t (*read_t) (int, void *, size_t);
  static read_t r = real <read_t> ("read");
  switch (io_fault_now (fd))
    {
    case IO_EIO:
      ++g_stats.io_eio;
      errno = EIO;
      return -1;
    case IO_EINTR:
      ++g_stats.io_eintr;
      errno = EINTR;
      return -1;
    case IO_SHORT:
      ++g_stats.io_short;
      if (n > 1)
	n = n / 2;
      break;
    }
  off_t pos = (fd >= 0 && fd < MAXFD && g_fd_patches[fd] != nullptr) ? lseek (fd, 0, SEEK_CUR) : 0;
  ssize_t got = r (fd, buf, n);
  if (fd >= 0 && fd < MAXFD && g_fd_patches[fd] != nullptr && pos >= 0)
    {
      int e = errno;
      apply_patches (fd, buf, got, pos);
      errno = e;
    }
  return got;
}

static ssize_t
do_pread (char const *name, int fd, void *buf, size_t n, off_t off)
{
  typedef ssize_t (*pread_t) (int, void *, size_t, off_t);
  static pread_t r = real <pread_t> ("pread");
  static pread_t r64 = real <pread_t> ("pread64");
  switch (io_fault_now (fd))
    {
    case IO_EIO:
      ++g_stats.io_eio;
      errno = EIO;
      return -1;
    case IO_EINTR:
      ++g_stats.io_eintr;
      errno = EINTR;
      return -1;
    case IO_SHORT:
      ++g_stats.io_short;
      if (n > 1)
	n = n / 2;
      break;
    }
  ssize_t got = (name[5] == '6' ? r64 : r) (fd, buf, n, off);
  if (fd >= 0 && fd < MAXFD && g_fd_patches[fd] != nullptr)
    {
      int e = errno;
      apply_patches (fd, buf, got, off);
      errno = e;
    }
  return got;
}

extern "C" ssize_t
pread (int fd, void *buf, size_t n, off_t off)
{
  return do_pread ("pread", fd, buf, n, off);
}

extern "C" ssize_t
pread64 (int fd, void *buf, size_t n, off_t off)
{
  return do_pread ("pread64", fd, buf, n, off);
}

static void *
do_mmap (bool is64, void *addr, size_t len, int prot, int flags, int fd,
	 off_t off)
{
  typedef void *(*mmap_t) (void *, size_t, int, int, int, off_t);
  static mmap_t r = real <mmap_t> ("mmap");
  static mmap_t r64 = real <mmap_t> ("mmap64");
  if (g_active && fd >= 0 && fd < MAXFD && ! (flags & MAP_ANONYMOUS)
      && g_fd_vpath[fd] != nullptr)
    {
      ++g_stats.mmaps;
      if (g_deny_mmap || g_fd_patches[fd] != nullptr)
	{
	  ++g_stats.mmaps_denied;
	  errno = ENOMEM;
	  return MAP_FAILED;
	}
    }
  return (is64 ? r64 : r) (addr, len, prot, flags, fd, off);
}

extern "C" void *
mmap (void *addr, size_t len, int prot, int flags, int fd, off_t off)
{
  return do_mmap (false, addr, len, prot, flags, fd, off);
}

extern "C" void *
mmap64 (void *addr, size_t len, int prot, int flags, int fd, off_t off)
{
  return do_mmap (true, addr, len, prot, flags, fd, off);
}
