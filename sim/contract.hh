// The C14 contract monitor: every fallible libzwerg call goes through
// call_checked.  NULL/false <=> error object set, message non-empty, success
// leaves the error slot untouched, nothing is thrown across the C boundary.
#ifndef ZSIM_CONTRACT_HH
#define ZSIM_CONTRACT_HH

#include <exception>
#include <string>

#include "libzwerg.h"
#include "libzwerg-dw.h"

// Emits "viol contract <api>:<what>" on the protocol pipe and _exits.
[[noreturn]] void contract_fail (char const *api, std::string const &what);
void contract_count (char const *api, bool failed);

#define ZSIM_SENTINEL (reinterpret_cast <zw_error *> (uintptr_t (0x5e5e5e5e5e5e5e5eULL)))

// F takes a zw_error ** and returns R.  FAIL is the value that signals
// failure.  Returns the call's result; *FAILED and *MSG describe a failure.
template <class R, class F>
R
call_checked (char const *api, R fail, F f, bool *failed, std::string *msg,
	      bool null_ok_without_error = false)
{
  zw_error *err = ZSIM_SENTINEL;
  R r;
  try
    {
      r = f (&err);
    }
  catch (std::exception const &e)
    {
      contract_fail (api, std::string ("exception escaped: ") + e.what ());
    }
  catch (...)
    {
      contract_fail (api, "unknown exception escaped");
    }

  if (r == fail)
    {
      if (err == ZSIM_SENTINEL)
	{
	  if (null_ok_without_error)
	    {
	      *failed = false;
	      contract_count (api, false);
	      return r;
	    }
	  contract_fail (api, "failure reported but no error object set");
	}
      if (err == nullptr)
	contract_fail (api, "failure reported with NULL error object");
      char const *m = zw_error_message (err);
      if (m == nullptr || *m == '\0')
	contract_fail (api, "failure reported with empty message");
      *msg = m;
      *failed = true;
      zw_error_destroy (err);
    }
  else
    {
      if (err != ZSIM_SENTINEL)
	contract_fail (api, "success reported but error slot was written");
      *failed = false;
    }
  contract_count (api, *failed);
  return r;
}

#endif
