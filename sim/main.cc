// zsim worker: stays pristine (initialises the two static vocabularies, then
// never compiles or runs a query itself) and forks one child per plan.

#include "zsim.hh"

#include <cerrno>
#include <cstring>
#include <fcntl.h>
#include <sys/mman.h>
#include <sys/wait.h>
#include <unistd.h>

#include "libzwerg.h"
#include "libzwerg-dw.h"

int g_child_errfd = -1;

void
init_vocabularies ()
{
  zw_error *err = nullptr;
  if (zw_vocabulary_core (&err) == nullptr
      || zw_vocabulary_dwarf (&err) == nullptr)
    {
      fprintf (stderr, "zsim: cannot initialise vocabularies: %s\n",
	       err ? zw_error_message (err) : "?");
      exit (2);
    }
}

static int
serve_one (plan const &p)
{
  int fds[2];
  if (pipe (fds) != 0)
    {
      perror ("pipe");
      return 2;
    }
  fflush (stdout);
  g_child_errfd = memfd_create ("zsim-child-stderr", 0);
  pid_t pid = fork ();
  if (pid < 0)
    {
      perror ("fork");
      return 2;
    }
  if (pid == 0)
    {
      close (fds[0]);
      if (p.knob ("cli", 0))
	child_cli (p, fds[1]);
      else
	child_run_plan (p, fds[1]);
    }
  close (fds[1]);

  char buf[65536];
  while (true)
    {
      ssize_t n = read (fds[0], buf, sizeof buf);
      if (n < 0 && errno == EINTR)
	continue;
      if (n <= 0)
	break;
      fwrite (buf, 1, n, stdout);
    }
  close (fds[0]);

  int st = 0;
  while (waitpid (pid, &st, 0) < 0 && errno == EINTR)
    ;

  // A child that died in the middle of a line must not corrupt the framing.
  fputs ("\n", stdout);

  // What an abnormally ended child wrote to its stderr last (UBSan reports,
  // assertion messages, terminate() messages).
  if (g_child_errfd >= 0)
    {
      if (! (WIFEXITED (st) && WEXITSTATUS (st) == 0))
	{
	  off_t sz = lseek (g_child_errfd, 0, SEEK_END);
	  off_t from = sz > 6000 ? sz - 6000 : 0;
	  std::string tail;
	  while (from < sz)
	    {
	      ssize_t n = pread (g_child_errfd, buf, sizeof buf, from);
	      if (n <= 0)
		break;
	      tail.append (buf, n);
	      from += n;
	    }
	  if (! tail.empty ())
	    printf ("=stderr %s\n", hexenc (tail).c_str ());
	}
      close (g_child_errfd);
      g_child_errfd = -1;
    }

  if (char const *rp = getenv ("ZSIM_REPORT_PATH"))
    {
      // ASan/LSan write to <rp>.<pid>; the UBSan runtime is a separate DSO
      // with its own report file, <rp>.ub.<pid> (set through UBSAN_OPTIONS).
      std::string log;
      for (char const *infix: {".", ".ub."})
	{
	  std::string path = std::string (rp) + infix + std::to_string (pid);
	  if (FILE *f = fopen (path.c_str (), "r"))
	    {
	      size_t n;
	      while ((n = fread (buf, 1, sizeof buf, f)) > 0 && log.size () < (1 << 20))
		log.append (buf, n);
	      fclose (f);
	      unlink (path.c_str ());
	    }
	}
      if (! log.empty ())
	printf ("=log %s\n", hexenc (log).c_str ());
    }

  printf ("=done %s exit=%d sig=%d\n", p.id.c_str (),
	  WIFEXITED (st) ? WEXITSTATUS (st) : -1,
	  WIFSIGNALED (st) ? WTERMSIG (st) : 0);
  fflush (stdout);
  return 0;
}

int
main (int argc, char **argv)
{
  setenv ("LC_ALL", "C", 1);
  unsetenv ("DEBUGINFOD_URLS");

  bool preinit = getenv ("ZSIM_NO_PREINIT") == nullptr;
  if (preinit)
    {
      init_vocabularies ();
      prebuild_vocabulary ();
    }

  printf ("=ready\n");
  fflush (stdout);

  while (true)
    {
      plan p;
      std::string err;
      if (! plan_read (stdin, p, err))
	{
	  if (! err.empty ())
	    {
	      printf ("=error %s\n", hexenc (err).c_str ());
	      fflush (stdout);
	      return 2;
	    }
	  return 0;
	}
      if (serve_one (p) != 0)
	return 2;
    }
}
