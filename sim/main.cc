// zsim worker: stays pristine (initialises the two static vocabularies, then
// never compiles or runs a query itself) and forks one child per plan.
//
// The worker does not touch the heap after start-up: the plan text is read
// into a static buffer and parsed by the child.  Every child therefore starts
// from the very same heap image, which makes address reuse in the
// non-sanitized build a function of the plan alone.

#include "zsim.hh"

#include <cerrno>
#include <cstring>
#include <fcntl.h>
#include <sys/mman.h>
#include <sys/wait.h>
#include <unistd.h>

#include "libzwerg.h"
#include "libzwerg-dw.h"

int g_child_errfd = -1;

void
init_vocabularies ()
{
  zw_error *err = nullptr;
  if (zw_vocabulary_core (&err) == nullptr
      || zw_vocabulary_dwarf (&err) == nullptr)
    {
      fprintf (stderr, "zsim: cannot initialise vocabularies: %s\n",
	       err ? zw_error_message (err) : "?");
      exit (2);
    }
}

namespace
{
  constexpr size_t PLAN_MAX = 8u << 20;
  char g_plan_text[PLAN_MAX];
  size_t g_plan_len;
  char g_plan_id[64];
  char g_relay[65536];
  char g_report_path[512];

  // Reads one plan (up to and including the "end" line) into g_plan_text.
  // Returns 1 on success, 0 on clean EOF, -1 on error.
  int
  slurp_plan ()
  {
    g_plan_len = 0;
    g_plan_id[0] = 0;
    bool any = false;
    while (true)
      {
	if (g_plan_len + 2 >= PLAN_MAX)
	  return -1;
	char *line = g_plan_text + g_plan_len;
	if (fgets (line, (int) (PLAN_MAX - g_plan_len), stdin) == nullptr)
	  return any ? -1 : 0;
	size_t n = strlen (line);
	if (n == 0)
	  continue;
	g_plan_len += n;
	if (strncmp (line, "plan ", 5) == 0)
	  {
	    size_t k = 0;
	    for (char const *p = line + 5; *p && *p != '\n' && *p != ' ' && k + 1 < sizeof g_plan_id; ++p)
	      g_plan_id[k++] = *p;
	    g_plan_id[k] = 0;
	  }
	if (line[0] != '\n')
	  any = true;
	if (strcmp (line, "end\n") == 0 || strcmp (line, "end") == 0)
	  return 1;
      }
  }

  void
  put_hex_file (char const *tag, int fd, off_t from, off_t to)
  {
    static char const *d = "0123456789abcdef";
    fputs (tag, stdout);
    while (from < to)
      {
	ssize_t n = pread (fd, g_relay, sizeof g_relay < (size_t) (to - from) ? sizeof g_relay : (size_t) (to - from), from);
	if (n <= 0)
	  break;
	for (ssize_t i = 0; i < n; ++i)
	  {
	    unsigned char c = g_relay[i];
	    putc (d[c >> 4], stdout);
	    putc (d[c & 15], stdout);
	  }
	from += n;
      }
    putc ('\n', stdout);
  }

  void
  relay_report (char const *rp, char const *infix, pid_t pid)
  {
    snprintf (g_report_path, sizeof g_report_path, "%s%s%d", rp, infix, (int) pid);
    int fd = open (g_report_path, O_RDONLY);
    if (fd < 0)
      return;
    off_t sz = lseek (fd, 0, SEEK_END);
    if (sz > (1 << 20))
      sz = 1 << 20;
    if (sz > 0)
      put_hex_file ("=log ", fd, 0, sz);
    close (fd);
    unlink (g_report_path);
  }

  int
  serve_one ()
  {
    int fds[2];
    if (pipe (fds) != 0)
      {
	perror ("pipe");
	return 2;
      }
    fflush (stdout);
    g_child_errfd = memfd_create ("zsim-child-stderr", 0);
    pid_t pid = fork ();
    if (pid < 0)
      {
	perror ("fork");
	return 2;
      }
    if (pid == 0)
      {
	close (fds[0]);
	FILE *mem = fmemopen (g_plan_text, g_plan_len, "r");
	plan p;
	std::string err;
	if (mem == nullptr || ! plan_read (mem, p, err))
	  {
	    std::string line = "viol setup " + hexenc ("bad plan: " + err) + "\n";
	    ssize_t r = write (fds[1], line.data (), line.size ());
	    (void) r;
	    _exit (3);
	  }
	fclose (mem);
	if (p.knob ("cli", 0))
	  child_cli (p, fds[1]);
	else
	  child_run_plan (p, fds[1]);
      }
    close (fds[1]);

    while (true)
      {
	ssize_t n = read (fds[0], g_relay, sizeof g_relay);
	if (n < 0 && errno == EINTR)
	  continue;
	if (n <= 0)
	  break;
	fwrite (g_relay, 1, n, stdout);
      }
    close (fds[0]);

    int st = 0;
    while (waitpid (pid, &st, 0) < 0 && errno == EINTR)
      ;

    // A child that died in the middle of a line must not corrupt the framing.
    fputs ("\n", stdout);

    // What an abnormally ended child wrote to its stderr last (UBSan reports,
    // assertion messages, terminate() messages).
    if (g_child_errfd >= 0)
      {
	if (! (WIFEXITED (st) && WEXITSTATUS (st) == 0))
	  {
	    off_t sz = lseek (g_child_errfd, 0, SEEK_END);
	    off_t from = sz > 6000 ? sz - 6000 : 0;
	    if (sz > from)
	      put_hex_file ("=stderr ", g_child_errfd, from, sz);
	  }
	close (g_child_errfd);
	g_child_errfd = -1;
      }

    if (char const *rp = getenv ("ZSIM_REPORT_PATH"))
      {
	relay_report (rp, ".", pid);
	relay_report (rp, ".ub.", pid);
      }

    printf ("=done %s exit=%d sig=%d\n", g_plan_id,
	    WIFEXITED (st) ? WEXITSTATUS (st) : -1,
	    WIFSIGNALED (st) ? WTERMSIG (st) : 0);
    fflush (stdout);
    return 0;
  }
}

int
main (int argc, char **argv)
{
  setenv ("LC_ALL", "C", 1);
  unsetenv ("DEBUGINFOD_URLS");

  bool preinit = getenv ("ZSIM_NO_PREINIT") == nullptr;
  if (preinit)
    {
      init_vocabularies ();
      prebuild_vocabulary ();
    }

  printf ("=ready\n");
  fflush (stdout);

  while (true)
    {
      int r = slurp_plan ();
      if (r == 0)
	return 0;
      if (r < 0)
	{
	  printf ("=error %s\n", hexenc ("bad or oversized plan").c_str ());
	  fflush (stdout);
	  return 2;
	}
      if (serve_one () != 0)
	return 2;
    }
}
