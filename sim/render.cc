// Canonical rendering of values and stacks.  Never prints a pointer; uses
// the public C API where one exists (and runs the contract monitor over the
// fallible accessors), the internal value interface (type name, show,
// doneness) where it does not.

#include "zsim.hh"
#include "contract.hh"

#include <sstream>

#include <elfutils/libdw.h>

#include "value.hh"
#include "value-dw.hh"

namespace
{
  std::string
  esc (std::string const &s)
  {
    std::string r;
    for (unsigned char c: s)
      if (c == '\\')
	r += "\\\\";
      else if (c < 0x20 || c >= 0x7f || c == '|' || c == ',' || c == '['
	       || c == ']' || c == '(' || c == ')')
	{
	  char buf[8];
	  snprintf (buf, sizeof buf, "\\x%02x", c);
	  r += buf;
	}
      else
	r += (char) c;
    return r;
  }

  std::string
  str_of (zw_value const *sv)
  {
    size_t len = 0;
    char const *p = zw_value_str_str (sv, &len);
    return std::string (p, len);
  }

  std::string
  dwarf_tail (char const *api, zw_value const *dw)
  {
    // Name and flavour of the Dwarf that a DIE / attribute / symbol belongs to.
    if (dw == nullptr)
      return std::string ("!") + api;
    std::string r = zw_value_dwarf_name (dw);
    if (auto da = dynamic_cast <doneness_aspect const *> (dw))
      r += da->is_raw () ? "/raw" : "/cooked";
    return r;
  }
}

std::string
render_value (zw_value const *v)
{
  std::ostringstream o;
  o << v->get_type ().name () << '@' << zw_value_pos (v) << ':';

  if (auto da = dynamic_cast <doneness_aspect const *> (v))
    o << (da->is_raw () ? "raw:" : "cooked:");

  bool failed;
  std::string msg;

  if (zw_value_is_const (v))
    {
      zw_value *f = call_checked <zw_value *>
	("zw_value_const_format", nullptr,
	 [&] (zw_error **e) { return zw_value_const_format (v, e); },
	 &failed, &msg);
      zw_value *b = call_checked <zw_value *>
	("zw_value_const_format_brief", nullptr,
	 [&] (zw_error **e) { return zw_value_const_format_brief (v, e); },
	 &failed, &msg);
      o << "C(" << (f ? esc (str_of (f)) : "!") << '|'
	<< (b ? esc (str_of (b)) : "!") << '|';
      if (zw_value_const_is_signed (v))
	o << 's' << zw_value_const_i64 (v);
      else
	o << 'u' << zw_value_const_u64 (v);
      o << ')';
      if (f)
	zw_value_destroy (f);
      if (b)
	zw_value_destroy (b);
    }
  else if (zw_value_is_str (v))
    o << "S(" << esc (str_of (v)) << ')';
  else if (zw_value_is_seq (v))
    {
      o << "Q[";
      for (size_t i = 0, n = zw_value_seq_length (v); i < n; ++i)
	{
	  if (i > 0)
	    o << ',';
	  o << render_value (zw_value_seq_at (v, i));
	}
      o << ']';
    }
  else
    {
      std::ostringstream sh;
      v->show (sh);
      o << "X(" << esc (sh.str ());

      if (zw_value_is_dwarf (v))
	{
	  zw_machine const *m = call_checked <zw_machine const *>
	    ("zw_value_dwarf_machine", nullptr,
	     [&] (zw_error **e) { return zw_value_dwarf_machine (v, e); },
	     &failed, &msg, true);
	  o << "|name=" << esc (zw_value_dwarf_name (v)) << "|machine=";
	  if (failed)
	    o << "!" << esc (msg);
	  else
	    o << zw_machine_code (m);
	}
      else if (zw_value_is_cu (v))
	o << "|off=" << zw_value_cu_offset (v);
      else if (zw_value_is_die (v))
	{
	  Dwarf_Die die = zw_value_die_die (v);
	  o << "|off=" << dwarf_dieoffset (&die) << "|tag=" << dwarf_tag (&die);
	  zw_value const *dw = call_checked <zw_value const *>
	    ("zw_value_die_dwarf", nullptr,
	     [&] (zw_error **e) { return zw_value_die_dwarf (v, e); },
	     &failed, &msg);
	  o << "|dw=" << esc (failed ? "!" + msg : dwarf_tail ("die", dw));
	}
      else if (zw_value_is_attr (v))
	{
	  Dwarf_Attribute at = zw_value_attr_attr (v);
	  o << "|at=" << dwarf_whatattr (&at) << "|form=" << dwarf_whatform (&at);
	  zw_value const *dw = call_checked <zw_value const *>
	    ("zw_value_attr_dwarf", nullptr,
	     [&] (zw_error **e) { return zw_value_attr_dwarf (v, e); },
	     &failed, &msg);
	  o << "|dw=" << esc (failed ? "!" + msg : dwarf_tail ("attr", dw));
	}
      else if (zw_value_is_llelem (v))
	o << "|lo=" << zw_value_llelem_low (v) << "|hi=" << zw_value_llelem_high (v);
      else if (zw_value_is_aset (v))
	{
	  o << "|aset=";
	  for (size_t i = 0, n = zw_value_aset_length (v); i < n; ++i)
	    {
	      zw_aset_pair p = zw_value_aset_at (v, i);
	      o << p.start << '+' << p.length << ';';
	    }
	}
      else if (zw_value_is_elfsym (v))
	{
	  o << "|idx=" << zw_value_elfsym_symidx (v)
	    << "|name=" << esc (zw_value_elfsym_name (v));
	  zw_value const *dw = call_checked <zw_value const *>
	    ("zw_value_elfsym_dwarf", nullptr,
	     [&] (zw_error **e) { return zw_value_elfsym_dwarf (v, e); },
	     &failed, &msg);
	  o << "|dw=" << esc (failed ? "!" + msg : dwarf_tail ("sym", dw));
	}
      o << ')';
    }
  return o.str ();
}

std::string
render_stack (zw_stack const *s)
{
  std::ostringstream o;
  size_t n = zw_stack_depth (s);
  o << n << '<';
  for (size_t i = 0; i < n; ++i)
    {
      if (i > 0)
	o << " ; ";
      o << render_value (zw_stack_at (s, i));
    }
  o << '>';
  return o.str ();
}
