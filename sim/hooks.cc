// Strong definitions of the weak DWGREP_VERIF hooks, and sanitizer options.

#include "zsim.hh"

#include <cstring>
#include <unistd.h>

namespace
{
  int g_poison = 85;
  long g_cache_period = 0;	// 0: never drop
  long g_cache_offset = 0;
  long g_cache_lookups = 0;
  long g_cache_drops = 0;
  int g_fail_fd = -1;
  bool g_scon_fatal = true;
  int g_scon_notes = 0;
}

void hooks_set_scon_fatal (bool fatal) { g_scon_fatal = fatal; }

void hooks_set_poison (int byte) { g_poison = byte; }

void
hooks_set_cache_drop (long period, long offset)
{
  g_cache_period = period;
  g_cache_offset = offset;
  g_cache_lookups = 0;
  g_cache_drops = 0;
}

long hooks_cache_lookups () { return g_cache_lookups; }
long hooks_cache_drops () { return g_cache_drops; }
void hooks_set_fail_sink (int fd) { g_fail_fd = fd; }

extern "C" int
dwgrep_verif_poison (void)
{
  return g_poison;
}

extern "C" int
dwgrep_verif_unusual (char const *site)
{
  long n = g_cache_lookups++;
  if (g_cache_period > 0 && n % g_cache_period == g_cache_offset)
    {
      ++g_cache_drops;
      return 1;
    }
  return 0;
}

extern "C" void
dwgrep_verif_fail (char const *msg)
{
  if (g_fail_fd >= 0 && ! g_scon_fatal)
    {
      // Record and carry on, as a build without the hook would.
      if (g_scon_notes++ < 20)
	{
	  std::string line = "note scon " + hexenc (msg) + "\n";
	  ssize_t r = write (g_fail_fd, line.data (), line.size ());
	  (void) r;
	}
      return;
    }
  if (g_fail_fd >= 0)
    {
      std::string line = "\nviol scon " + hexenc (msg) + "\n";
      ssize_t r = write (g_fail_fd, line.data (), line.size ());
      (void) r;
      _exit (79);
    }
  fprintf (stderr, "DWGREP_VERIF scon: %s\n", msg);
  abort ();
}

#if ZSIM_ASAN
extern "C" __attribute__ ((used, visibility ("default"))) char const *
__asan_default_options ()
{
  return "exitcode=77:detect_leaks=1:abort_on_error=0:allocator_may_return_null=1"
	 ":detect_stack_use_after_return=0:handle_abort=0:malloc_context_size=12"
	 ":fast_unwind_on_malloc=1:print_summary=1:symbolize=1";
}

extern "C" __attribute__ ((used, visibility ("default"))) char const *
__ubsan_default_options ()
{
  return "print_stacktrace=1";
}

extern "C" __attribute__ ((used, visibility ("default"))) char const *
__lsan_default_options ()
{
  return "print_suppressions=0";
}
#endif
