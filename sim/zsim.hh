// zsim -- deterministic simulation harness for dwgrep/libzwerg.
// See /verif/DESIGN.md section 3.
#ifndef ZSIM_HH
#define ZSIM_HH

#include <cstdint>
#include <cstdio>
#include <map>
#include <memory>
#include <string>
#include <vector>

// ---------------------------------------------------------------- util

std::string hexenc (std::string const &s);
std::string hexdec (std::string const &s);
std::vector <std::string> split_ws (std::string const &line);
uint64_t fnv1a (uint64_t h, void const *data, size_t len);
uint64_t fnv1a (uint64_t h, std::string const &s);
std::string json_str (std::string const &s);

// ---------------------------------------------------------------- fs layer
//
// All paths under "/sim/<n>/" are virtual: by default "/sim/<n>/X" is backed
// by "<tests dir>/X"; an override can back an exact virtual path by another
// real path or make its open fail with an errno.  Descriptors opened through a
// virtual path are "tracked"; only tracked descriptors ever see faults.

enum io_kind { IO_EIO = 1, IO_SHORT = 2, IO_EINTR = 3 };

struct fs_counters
{
  long opens = 0;		// opens of virtual paths
  long opens_failed_injected = 0;
  long opens_alt = 0;		// opens of a virtual path that no OPEN op named
  long reads = 0;		// read/pread calls on tracked fds
  long mmaps = 0;		// file-backed mmaps of tracked fds
  long mmaps_denied = 0;
  long io_eio = 0, io_short = 0, io_eintr = 0;	// fired
  long patched_bytes = 0;	// damaged bytes actually delivered to a reader
  long closes = 0;
  long close_ebadf = 0;		// close() of a tracked fd number returned EBADF
  long close_ebadf_in_libs = 0;	// same, but both closes came from a shared library
  long double_close = 0;	// tracked fd closed twice without reopen
};

void fs_reset ();
void fs_set_tests_dir (std::string const &dir);
void fs_set_fixtures_dir (std::string const &dir);
void fs_add_override (std::string const &vpath, std::string const &backing,
		      int open_errno,
		      std::vector <std::pair <long, int>> const &patches = {});
void fs_set_deny_mmap (bool deny);
// Arm faults for the calls issued from now on: the N-th (0-based) read/pread
// on a tracked fd fails in the given way.  Clears the call counter.
void fs_arm_io (std::vector <std::pair <int, int>> const &faults);
void fs_disarm_io ();
bool fs_io_fired_since_arm ();
void fs_note_primary (std::string const &vpath);
fs_counters &fs_stats ();
// Tracked descriptors currently open (fd -> vpath).
std::map <int, std::string> fs_open_tracked ();
// All open descriptors of the process, from /proc/self/fd.
std::vector <int> fs_all_fds ();

// ---------------------------------------------------------------- plan

struct plan_file
{
  std::string vpath;
  std::string backing;	// empty: none
  int open_errno;	// 0: none
  // Damage: bytes of the file as seen through read/pread (mmap is denied for
  // such a file, so that everything goes through pread).
  std::vector <std::pair <long, int>> patches;
};

struct plan_prog
{
  std::string text;
  int mode;		// 0 cstr, 1 len, 2 len on exact-size heap block
};

struct plan_step
{
  int client;
  std::string op;
  std::vector <std::string> args;
  std::vector <std::pair <int, int>> io;	// (nth, kind)
};

struct plan
{
  std::string id;
  std::string profile;
  std::map <std::string, long> knobs;
  std::vector <plan_file> files;
  std::vector <plan_prog> progs;
  std::vector <plan_step> steps;
  std::vector <std::string> teardown;

  long knob (std::string const &k, long dflt) const
  {
    auto it = knobs.find (k);
    return it == knobs.end () ? dflt : it->second;
  }
};

// Reads lines until "end".  Returns false on EOF before a plan started.
bool plan_read (FILE *in, plan &out, std::string &err);

// ---------------------------------------------------------------- hooks

void hooks_set_poison (int byte);
void hooks_set_cache_drop (long period, long offset);
long hooks_cache_lookups ();
long hooks_cache_drops ();
void hooks_set_fail_sink (int fd);
void hooks_set_scon_fatal (bool fatal);

// ---------------------------------------------------------------- render

struct zw_value;
struct zw_stack;
std::string render_value (zw_value const *v);
std::string render_stack (zw_stack const *s);

// ---------------------------------------------------------------- exec

// Runs in a forked child; never returns.
[[noreturn]] void child_run_plan (plan const &p, int out_fd);
// Baseline child: prints records for one execution description.
[[noreturn]] void child_baseline (plan const &p, std::string const &desc,
				  int out_fd);
// CLI invocation child (C19).
[[noreturn]] void child_cli (plan const &p, int out_fd);
// Library driver child (C19 model input).
[[noreturn]] void child_lib (plan const &p, int out_fd);

void apply_environment (plan const &p);
// memfd created by the worker for the child's stderr, so that the worker can
// still read it after the child died.
extern int g_child_errfd;

void init_vocabularies ();
void prebuild_vocabulary ();

int dwgrep_main (int argc, char *argv[]);

#endif
