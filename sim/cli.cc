// C19: one invocation of the real dwgrep main() in a forked child, inside the
// simulated file layer.  argv / stdin come from the plan, stdout / stderr are
// captured separately, the exit status is what main() returns.

#include "zsim.hh"

#include <csignal>
#include <cstring>
#include <iostream>
#include <sys/mman.h>
#include <unistd.h>

#if ZSIM_ASAN
# include <sanitizer/common_interface_defs.h>
#endif

namespace
{
  int g_cli_out = -1;

  std::string
  slurp_fd (int fd)
  {
    std::string r;
    char buf[4096];
    off_t off = 0;
    while (true)
      {
	ssize_t n = pread (fd, buf, sizeof buf, off);
	if (n <= 0)
	  break;
	r.append (buf, n);
	off += n;
      }
    return r;
  }

  void
  put (std::string const &line)
  {
    std::string l = line + "\n";
    size_t off = 0;
    while (off < l.size ())
      {
	ssize_t n = write (g_cli_out, l.data () + off, l.size () - off);
	if (n <= 0)
	  _exit (3);
	off += n;
      }
  }

  void
  on_alarm (int)
  {
    static char const msg[] = "\nviol hang -\n";
    ssize_t r = write (g_cli_out, msg, sizeof msg - 1);
    (void) r;
    _exit (81);
  }
}

[[noreturn]] void
child_cli (plan const &p, int out_fd)
{
  g_cli_out = out_fd;
  hooks_set_fail_sink (out_fd);
  signal (SIGALRM, on_alarm);
  alarm ((unsigned) p.knob ("watchdog_s", 10));

#if ZSIM_ASAN
  if (char const *rp = getenv ("ZSIM_REPORT_PATH"))
    __sanitizer_set_report_path (rp);
#endif

  apply_environment (p);

  std::vector <std::string> args;
  std::string in;
  bool have_in = false;
  std::string qfile_path;
  for (auto const &s: p.steps)
    if (s.op == "QFILE")
      {
	// A script file for -f: a memfd, named through /proc/self/fd.
	std::string content = s.args.empty () ? "" : hexdec (s.args[0]);
	int qfd = memfd_create ("zsim-cli-qfile", 0);
	if (qfd < 0)
	  _exit (3);
	if (! content.empty ())
	  {
	    ssize_t n = pwrite (qfd, content.data (), content.size (), 0);
	    (void) n;
	  }
	qfile_path = "/proc/self/fd/" + std::to_string (qfd);
      }
  for (auto const &s: p.steps)
    if (s.op == "ARGV")
      for (auto const &a: s.args)
	{
	  std::string v = hexdec (a);
	  if (v == "@QFILE@")
	    v = qfile_path;
	  args.push_back (v);
	}
    else if (s.op == "STDIN")
      {
	have_in = true;
	in = s.args.empty () ? "" : hexdec (s.args[0]);
      }
    else if (s.op == "IO")
      fs_arm_io (s.io);

  int ofd = memfd_create ("zsim-cli-out", 0);
  int efd = g_child_errfd >= 0 ? g_child_errfd : memfd_create ("zsim-cli-err", 0);
  int ifd = memfd_create ("zsim-cli-in", 0);
  if (ofd < 0 || efd < 0 || ifd < 0)
    _exit (3);
  if (have_in && ! in.empty ())
    {
      ssize_t n = pwrite (ifd, in.data (), in.size (), 0);
      (void) n;
    }
  fflush (stdout);
  fflush (stderr);
  dup2 (ifd, 0);
  dup2 (ofd, 1);
  dup2 (efd, 2);

  std::vector <char *> argv;
  std::vector <std::unique_ptr <char[]>> store;
  for (auto const &a: args)
    {
      std::unique_ptr <char[]> c (new char[a.size () + 1]);
      memcpy (c.get (), a.c_str (), a.size () + 1);
      argv.push_back (c.get ());
      store.push_back (std::move (c));
    }
  argv.push_back (nullptr);

  int status;
  std::string escaped;
  try
    {
      status = dwgrep_main ((int) args.size (), argv.data ());
    }
  catch (std::exception const &e)
    {
      status = -1;
      escaped = std::string ("exception escaped main: ") + e.what ();
    }
  catch (...)
    {
      status = -1;
      escaped = "unknown exception escaped main";
    }

  std::cout.flush ();
  std::cerr.flush ();
  fflush (stdout);
  fflush (stderr);

  std::string out = slurp_fd (ofd);
  std::string err = slurp_fd (efd);

  if (! escaped.empty ())
    put ("viol contract " + hexenc (escaped));
  put ("cli status=" + std::to_string (status) + " out=" + hexenc (out)
       + " err=" + hexenc (err));
  fs_counters &fc = fs_stats ();
  put ("ctr opens " + std::to_string (fc.opens));
  put ("ctr opens_failed_injected " + std::to_string (fc.opens_failed_injected));
  put ("ctr opens_alt " + std::to_string (fc.opens_alt));
  put ("ctr reads " + std::to_string (fc.reads));
  put ("ctr mmaps_denied " + std::to_string (fc.mmaps_denied));
  put ("ctr io_eio " + std::to_string (fc.io_eio));
  put ("ctr io_short " + std::to_string (fc.io_short));
  put ("ctr io_eintr " + std::to_string (fc.io_eintr));
  put ("fin");

  // Regular exit: static destructors run, then LeakSanitizer (exit code 77
  // if it finds something).
  exit (0);
}
