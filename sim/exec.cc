// The plan executor.  Runs in a forked child of the pristine worker; it is a
// recorder (every step's outcome goes to the protocol pipe as one line) plus
// the online monitors: C14 contract, scon lifecycle hook, input-intact, and
// the end-of-run checks (live scons, descriptors, LSan).

#include "zsim.hh"
#include "contract.hh"

#include <cerrno>
#include <csignal>
#include <cstring>
#include <cxxabi.h>
#include <fcntl.h>
#include <set>
#include <sstream>
#include <sys/mman.h>
#include <unistd.h>

#include <elfutils/libdw.h>

#if ZSIM_ASAN
# include <sanitizer/common_interface_defs.h>
# include <sanitizer/lsan_interface.h>
#endif

extern "C"
{
  long dwgrep_verif_live_scons (void);
  extern unsigned long dwgrep_verif_tag;
  void dwgrep_verif_census (void (*cb) (unsigned long, char const *, void *),
			    void *data);
}

namespace
{
  long g_stale_dwerr_set = 0;
  int g_out = -1;
  std::string g_outbuf;
  std::map <std::string, std::pair <long, long>> g_api_counts; // calls, failures

  void
  flush_out ()
  {
    size_t off = 0;
    while (off < g_outbuf.size ())
      {
	ssize_t n = write (g_out, g_outbuf.data () + off, g_outbuf.size () - off);
	if (n < 0)
	  {
	    if (errno == EINTR)
	      continue;
	    _exit (3);
	  }
	off += n;
      }
    g_outbuf.clear ();
  }

  void
  emit (std::string const &line)
  {
    g_outbuf += line;
    g_outbuf += '\n';
  }

  [[noreturn]] void
  violation (std::string const &oracle, std::string const &detail, int code = 80)
  {
    emit ("viol " + oracle + " " + hexenc (detail));
    flush_out ();
    _exit (code);
  }

  // ---------------------------------------------------------- stderr capture
  int g_errfd = -1;
  off_t g_erroff = 0;

  int g_stdoutfd = -1;

  void
  capture_stderr_start ()
  {
    g_errfd = g_child_errfd >= 0 ? g_child_errfd : memfd_create ("zsim-stderr", 0);
    if (g_errfd < 0)
      _exit (3);
    fflush (stderr);
    dup2 (g_errfd, 2);

    // The library has no business writing to stdout; whatever it writes
    // there must not end up in the protocol stream of the worker.
    g_stdoutfd = memfd_create ("zsim-stdout", 0);
    if (g_stdoutfd < 0)
      _exit (3);
    dup2 (g_stdoutfd, 1);
  }

  std::string
  captured_stdout ()
  {
    fflush (stdout);
    std::string r;
    char buf[4096];
    off_t off = 0;
    while (r.size () < 4096)
      {
	ssize_t n = pread (g_stdoutfd, buf, sizeof buf, off);
	if (n <= 0)
	  break;
	r.append (buf, n);
	off += n;
      }
    return r;
  }

  std::string
  capture_stderr_take ()
  {
    fflush (stderr);
    std::string r;
    char buf[4096];
    while (true)
      {
	ssize_t n = pread (g_errfd, buf, sizeof buf, g_erroff);
	if (n <= 0)
	  break;
	r.append (buf, n);
	g_erroff += n;
      }
    return r;
  }

  std::string
  demangle (char const *name)
  {
    int st = 0;
    char *d = abi::__cxa_demangle (name, nullptr, nullptr, &st);
    std::string r = (st == 0 && d != nullptr) ? d : name;
    free (d);
    // strip template noise that would make the line huge
    for (auto &c: r)
      if (c == ' ')
	c = '_';
    return r;
  }

  std::string
  safe_render (zw_stack const *s)
  {
    try
      {
	return render_stack (s);
      }
    catch (std::exception const &e)
      {
	return std::string ("!render-exception:") + e.what ();
      }
  }

  zw_cdom const *
  dom_by_name (std::string const &n)
  {
    if (n == "hex") return zw_cdom_hex ();
    if (n == "oct") return zw_cdom_oct ();
    if (n == "bin") return zw_cdom_bin ();
    if (n == "bool") return zw_cdom_bool ();
    if (n == "tag") return zw_cdom_dw_tag ();
    if (n == "attr") return zw_cdom_dw_attr ();
    if (n == "form") return zw_cdom_dw_form ();
    if (n == "lang") return zw_cdom_dw_lang ();
    return zw_cdom_dec ();
  }

  struct res_ent
  {
    zw_result *r;
    int q;
    int pulls;
    bool ended;
    bool failed;
  };

  struct state
  {
    plan const &p;
    zw_vocabulary *voc = nullptr;
    bool own_voc = false;
    std::map <int, zw_query *> Q;
    std::map <int, zw_vocabulary *> VOC;	// vocabularies built by the plan
    std::map <int, zw_value *> V;
    std::map <int, zw_stack *> I;
    std::map <int, std::string> I_render;
    std::map <int, res_ent> R;
    std::map <int, zw_stack *> O;
    std::map <int, std::string> O_render;
    std::set <int> O_blind;	// kept, never rendered yet

    explicit state (plan const &pl) : p (pl) {}
  };

  struct census_acc
  {
    unsigned long tag;
    std::set <std::string> types;
  };

  void
  census_cb (unsigned long tag, char const *type, void *data)
  {
    auto acc = static_cast <census_acc *> (data);
    if (tag == acc->tag)
      acc->types.insert (demangle (type));
  }

  std::string
  census (int rid)
  {
    census_acc acc {(unsigned long) rid + 1, {}};
    dwgrep_verif_census (census_cb, &acc);
    std::string r;
    for (auto const &t: acc.types)
      {
	if (! r.empty ())
	  r += ';';
	r += t;
      }
    return r.empty () ? "-" : r;
  }

  int
  argi (plan_step const &s, size_t i)
  {
    return i < s.args.size () ? atoi (s.args[i].c_str ()) : -1;
  }

  zw_vocabulary *g_prebuilt_voc = nullptr;

  zw_vocabulary *
  make_voc ()
  {
    bool failed;
    std::string msg;
    zw_vocabulary *voc = call_checked <zw_vocabulary *>
      ("zw_vocabulary_init", nullptr,
       [] (zw_error **e) { return zw_vocabulary_init (e); }, &failed, &msg);
    if (failed)
      violation ("setup", "zw_vocabulary_init: " + msg);
    zw_vocabulary const *core = call_checked <zw_vocabulary const *>
      ("zw_vocabulary_core", nullptr,
       [] (zw_error **e) { return zw_vocabulary_core (e); }, &failed, &msg);
    if (failed)
      violation ("setup", "zw_vocabulary_core: " + msg);
    zw_vocabulary const *dw = call_checked <zw_vocabulary const *>
      ("zw_vocabulary_dwarf", nullptr,
       [] (zw_error **e) { return zw_vocabulary_dwarf (e); }, &failed, &msg);
    if (failed)
      violation ("setup", "zw_vocabulary_dwarf: " + msg);
    call_checked <bool> ("zw_vocabulary_add", false,
			 [&] (zw_error **e) { return zw_vocabulary_add (voc, core, e); },
			 &failed, &msg);
    if (failed)
      violation ("setup", "zw_vocabulary_add: " + msg);
    call_checked <bool> ("zw_vocabulary_add", false,
			 [&] (zw_error **e) { return zw_vocabulary_add (voc, dw, e); },
			 &failed, &msg);
    if (failed)
      violation ("setup", "zw_vocabulary_add: " + msg);
    return voc;
  }

  // Build one value for MKIN.  Returns nullptr (and sets WHY) if the item
  // refers to something that does not exist.
  zw_value *
  make_item (state &st, std::string item, size_t pos, std::string &why)
  {
    bool failed;
    std::string msg;
    auto f = split_ws ([&] { std::string t = item; for (auto &c: t) if (c == ':') c = ' '; return t; } ());
    if (f.empty ())
      {
	why = "bad-item";
	return nullptr;
      }
    zw_value *v = nullptr;
    if (f[0] == "I" && f.size () >= 3)
      v = call_checked <zw_value *>
	("zw_value_init_const_i64", nullptr,
	 [&] (zw_error **e) {
	   return zw_value_init_const_i64 (strtoll (f[1].c_str (), nullptr, 10),
					   dom_by_name (f[2]), pos, e);
	 }, &failed, &msg);
    else if (f[0] == "U" && f.size () >= 3)
      v = call_checked <zw_value *>
	("zw_value_init_const_u64", nullptr,
	 [&] (zw_error **e) {
	   return zw_value_init_const_u64 (strtoull (f[1].c_str (), nullptr, 10),
					   dom_by_name (f[2]), pos, e);
	 }, &failed, &msg);
    else if (f[0] == "S" && f.size () >= 2)
      {
	std::string s = hexdec (f[1]);
	// exact-size heap block, no terminator
	char *blk = static_cast <char *> (malloc (s.size () ? s.size () : 1));
	memcpy (blk, s.data (), s.size ());
	v = call_checked <zw_value *>
	  ("zw_value_init_str_len", nullptr,
	   [&] (zw_error **e) { return zw_value_init_str_len (blk, s.size (), pos, e); },
	   &failed, &msg);
	free (blk);
      }
    else if (f[0] == "Z" && f.size () >= 2)
      {
	std::string s = hexdec (f[1]);
	v = call_checked <zw_value *>
	  ("zw_value_init_str", nullptr,
	   [&] (zw_error **e) { return zw_value_init_str (s.c_str (), pos, e); },
	   &failed, &msg);
      }
    else if (f[0] == "V" && f.size () >= 2)
      {
	auto it = st.V.find (atoi (f[1].c_str ()));
	if (it == st.V.end ())
	  {
	    why = "no-value";
	    return nullptr;
	  }
	zw_value const *src = it->second;
	v = call_checked <zw_value *>
	  ("zw_value_clone", nullptr,
	   [&] (zw_error **e) { return zw_value_clone (src, pos, e); },
	   &failed, &msg);
      }
    else if (f[0] == "O" && f.size () >= 3)
      {
	auto it = st.O.find (atoi (f[1].c_str ()));
	size_t depth = atoi (f[2].c_str ());
	if (it == st.O.end () || depth >= zw_stack_depth (it->second))
	  {
	    why = "no-kept";
	    return nullptr;
	  }
	zw_value const *src = zw_stack_at (it->second, depth);
	v = call_checked <zw_value *>
	  ("zw_value_clone", nullptr,
	   [&] (zw_error **e) { return zw_value_clone (src, pos, e); },
	   &failed, &msg);
      }
    else
      {
	why = "bad-item";
	return nullptr;
      }
    if (v == nullptr)
      why = "init-failed:" + msg;
    return v;
  }

  void
  check_inputs_intact (state &st, int step)
  {
    for (auto const &ent: st.I)
      {
	std::string now = safe_render (ent.second);
	if (now != st.I_render[ent.first])
	  violation ("input-intact",
		     "step " + std::to_string (step) + " input " + std::to_string (ent.first)
		     + " was " + st.I_render[ent.first] + " now " + now);
      }
    for (auto const &ent: st.O)
      {
	if (st.O_blind.count (ent.first))
	  continue;
	std::string now = safe_render (ent.second);
	if (now != st.O_render[ent.first])
	  violation ("input-intact",
		     "step " + std::to_string (step) + " kept " + std::to_string (ent.first)
		     + " was " + st.O_render[ent.first] + " now " + now);
      }
  }

  void
  run_step (state &st, int idx, plan_step const &s)
  {
    std::ostringstream ev;
    ev << "E " << idx << ' ' << s.client << ' ' << s.op;
    for (auto const &a: s.args)
      ev << ' ' << a;
    ev << " =";

    bool failed = false;
    std::string msg;
    std::string const &op = s.op;
    bool touch = false;	// whether to run the intact check after this step

    fs_arm_io (s.io);
    alarm ((unsigned) st.p.knob ("watchdog_s", 10));	// the watchdog is per step

    // buggify: libdw keeps the code of the last failure in a per-thread cell
    // that an embedding program shares with libzwerg.  Leave an unrelated
    // error pending there; code that reads the cell without having just seen
    // a call fail will pick it up.
    if (st.p.knob ("stale_dwerr", 0) != 0)
      {
	Dwarf *none = dwarf_begin (-1, DWARF_C_READ);
	if (none != nullptr)
	  dwarf_end (none);
	++g_stale_dwerr_set;
      }

    if (op == "VOC")
      {
	// VOC v part part ...: a vocabulary made of the given parts, added in
	// the given order (core, dw).
	int v = argi (s, 0);
	if (st.VOC.count (v))
	  ev << " skip";
	else
	  {
	    zw_vocabulary *voc = call_checked <zw_vocabulary *>
	      ("zw_vocabulary_init", nullptr,
	       [] (zw_error **e) { return zw_vocabulary_init (e); }, &failed, &msg);
	    if (failed)
	      violation ("setup", "zw_vocabulary_init: " + msg);
	    for (size_t k = 1; k < s.args.size (); ++k)
	      {
		bool dw = s.args[k] == "dw";
		zw_vocabulary const *part = call_checked <zw_vocabulary const *>
		  (dw ? "zw_vocabulary_dwarf" : "zw_vocabulary_core", nullptr,
		   [&] (zw_error **e) { return dw ? zw_vocabulary_dwarf (e) : zw_vocabulary_core (e); },
		   &failed, &msg);
		if (failed)
		  violation ("setup", "zw_vocabulary_core/dwarf: " + msg);
		call_checked <bool> ("zw_vocabulary_add", false,
				     [&] (zw_error **e) { return zw_vocabulary_add (voc, part, e); },
				     &failed, &msg);
		if (failed)
		  {
		    // e.g. the same part added twice: an error, and the
		    // vocabulary stays as it was
		    ev << " addfail=" << k << " msg=" << hexenc (msg);
		    failed = false;
		  }
	      }
	    st.VOC[v] = voc;
	    ev << " ok";
	  }
      }
    else if (op == "DROPVOC")
      {
	int v = argi (s, 0);
	if (! st.VOC.count (v))
	  ev << " skip";
	else
	  {
	    // queries keep what they need from the vocabulary they were compiled with
	    zw_vocabulary_destroy (st.VOC[v]);
	    st.VOC.erase (v);
	    ev << " ok";
	  }
      }
    else if (op == "PARSE")
      {
	int q = argi (s, 0), pi = argi (s, 1);
	int vi = s.args.size () >= 3 ? argi (s, 2) : -1;
	zw_vocabulary *usevoc = nullptr;
	if (vi >= 0)
	  usevoc = st.VOC.count (vi) ? st.VOC[vi] : nullptr;
	else
	  {
	    // the default vocabulary (core + dwarf) is made on first use, so
	    // that a plan which builds its own never merges anything else
	    if (st.voc == nullptr)
	      {
		st.own_voc = g_prebuilt_voc == nullptr || st.p.knob ("fresh_voc", 0) != 0;
		st.voc = st.own_voc ? make_voc () : g_prebuilt_voc;
	      }
	    usevoc = st.voc;
	  }
	if (st.Q.count (q) || pi < 0 || (size_t) pi >= st.p.progs.size () || usevoc == nullptr)
	  ev << " skip";
	else
	  {
	    plan_prog const &pp = st.p.progs[pi];
	    zw_query *qq = nullptr;
	    if (pp.mode == 0)
	      qq = call_checked <zw_query *>
		("zw_query_parse", nullptr,
		 [&] (zw_error **e) { return zw_query_parse (usevoc, pp.text.c_str (), e); },
		 &failed, &msg);
	    else
	      {
		char *blk;
		if (pp.mode == 2)
		  {
		    blk = static_cast <char *> (malloc (pp.text.size () ? pp.text.size () : 1));
		    memcpy (blk, pp.text.data (), pp.text.size ());
		  }
		else
		  blk = strdup (pp.text.c_str ());
		size_t len = pp.mode == 2 ? pp.text.size () : strlen (blk);
		qq = call_checked <zw_query *>
		  ("zw_query_parse_len", nullptr,
		   [&] (zw_error **e) { return zw_query_parse_len (usevoc, blk, len, e); },
		   &failed, &msg);
		free (blk);
	      }
	    if (failed)
	      ev << " rej msg=" << hexenc (msg);
	    else
	      {
		st.Q[q] = qq;
		ev << " ok";
	      }
	  }
      }
    else if (op == "DROPQ")
      {
	int q = argi (s, 0);
	bool busy = false;
	for (auto const &r: st.R)
	  if (r.second.q == q)
	    busy = true;
	// A result set holds on to what it needs of its query (zw_result keeps
	// the op graph alive), so the query may go first; plans only do that
	// when the knob is set.
	if (! st.Q.count (q) || (busy && st.p.knob ("dropq_busy", 0) == 0))
	  ev << " skip";
	else
	  {
	    zw_query_destroy (st.Q[q]);
	    st.Q.erase (q);
	    ev << " ok";
	  }
      }
    else if (op == "OPEN")
      {
	int v = argi (s, 0);
	if (st.V.count (v) || s.args.size () < 3)
	  ev << " skip";
	else
	  {
	    std::string path = hexdec (s.args[1]);
	    bool raw = s.args[2] == "raw";
	    fs_note_primary (path);
	    zw_value *val = call_checked <zw_value *>
	      (raw ? "zw_value_init_dwarf_raw" : "zw_value_init_dwarf", nullptr,
	       [&] (zw_error **e) {
		 return raw ? zw_value_init_dwarf_raw (path.c_str (), 0, e)
			    : zw_value_init_dwarf (path.c_str (), 0, e);
	       }, &failed, &msg);
	    if (failed)
	      ev << " fail msg=" << hexenc (msg);
	    else
	      {
		st.V[v] = val;
		ev << " ok";
	      }
	  }
      }
    else if (op == "CLONEV")
      {
	int w = argi (s, 0), v = argi (s, 1);
	if (st.V.count (w) || ! st.V.count (v))
	  ev << " skip";
	else
	  {
	    zw_value *val = call_checked <zw_value *>
	      ("zw_value_clone", nullptr,
	       [&] (zw_error **e) { return zw_value_clone (st.V[v], 0, e); },
	       &failed, &msg);
	    if (failed)
	      ev << " fail msg=" << hexenc (msg);
	    else
	      {
		st.V[w] = val;
		ev << " ok";
	      }
	  }
      }
    else if (op == "DROPV")
      {
	int v = argi (s, 0);
	if (! st.V.count (v))
	  ev << " skip";
	else
	  {
	    zw_value_destroy (st.V[v]);
	    st.V.erase (v);
	    ev << " ok";
	    touch = true;
	  }
      }
    else if (op == "MKIN")
      {
	int i = argi (s, 0);
	if (st.I.count (i))
	  ev << " skip";
	else
	  {
	    zw_stack *stk = call_checked <zw_stack *>
	      ("zw_stack_init", nullptr,
	       [] (zw_error **e) { return zw_stack_init (e); }, &failed, &msg);
	    if (failed)
	      violation ("setup", "zw_stack_init: " + msg);
	    std::string why;
	    bool ok = true;
	    for (size_t k = 1; k < s.args.size () && ok; ++k)
	      {
		std::string item = s.args[k];
		bool take = false;
		if (! item.empty () && item[0] == 't')
		  {
		    take = true;
		    item = item.substr (1);
		  }
		zw_value *v = make_item (st, item, k - 1, why);
		if (v == nullptr)
		  {
		    ok = false;
		    break;
		  }
		if (take)
		  call_checked <bool>
		    ("zw_stack_push_take", false,
		     [&] (zw_error **e) { return zw_stack_push_take (stk, v, e); },
		     &failed, &msg);
		else
		  {
		    call_checked <bool>
		      ("zw_stack_push", false,
		       [&] (zw_error **e) { return zw_stack_push (stk, v, e); },
		       &failed, &msg);
		    zw_value_destroy (v);
		  }
		if (failed)
		  {
		    why = "push-failed:" + msg;
		    ok = false;
		  }
	      }
	    if (! ok)
	      {
		zw_stack_destroy (stk);
		ev << " skip why=" << hexenc (why);
	      }
	    else
	      {
		st.I[i] = stk;
		st.I_render[i] = safe_render (stk);
		ev << " ok r=" << hexenc (st.I_render[i]);
	      }
	  }
      }
    else if (op == "DROPI")
      {
	int i = argi (s, 0);
	if (! st.I.count (i))
	  ev << " skip";
	else
	  {
	    zw_stack_destroy (st.I[i]);
	    st.I.erase (i);
	    st.I_render.erase (i);
	    ev << " ok";
	    touch = true;
	  }
      }
    else if (op == "EXEC")
      {
	int r = argi (s, 0), q = argi (s, 1), i = argi (s, 2);
	if (st.R.count (r) || ! st.Q.count (q) || ! st.I.count (i))
	  ev << " skip";
	else
	  {
	    dwgrep_verif_tag = (unsigned long) r + 1;
	    zw_result *res = call_checked <zw_result *>
	      ("zw_query_execute", nullptr,
	       [&] (zw_error **e) { return zw_query_execute (st.Q[q], st.I[i], e); },
	       &failed, &msg);
	    dwgrep_verif_tag = 0;
	    if (failed)
	      ev << " fail msg=" << hexenc (msg);
	    else
	      {
		st.R[r] = {res, q, 0, false, false};
		ev << " ok";
	      }
	    touch = true;
	  }
      }
    else if (op == "EXECO")
      {
	// an output stack of one execution handed straight on as the input
	// stack of another
	int r = argi (s, 0), q = argi (s, 1), o = argi (s, 2);
	if (st.R.count (r) || ! st.Q.count (q) || ! st.O.count (o))
	  ev << " skip";
	else
	  {
	    dwgrep_verif_tag = (unsigned long) r + 1;
	    zw_result *res = call_checked <zw_result *>
	      ("zw_query_execute", nullptr,
	       [&] (zw_error **e) { return zw_query_execute (st.Q[q], st.O[o], e); },
	       &failed, &msg);
	    dwgrep_verif_tag = 0;
	    if (failed)
	      ev << " fail msg=" << hexenc (msg);
	    else
	      {
		st.R[r] = {res, q, 0, false, false};
		ev << " ok";
	      }
	    touch = true;
	  }
      }
    else if (op == "VOCADD")
      {
	int v = argi (s, 0);
	if (! st.VOC.count (v) || s.args.size () < 2)
	  ev << " skip";
	else
	  {
	    bool dw = s.args[1] == "dw";
	    zw_vocabulary const *part = call_checked <zw_vocabulary const *>
	      (dw ? "zw_vocabulary_dwarf" : "zw_vocabulary_core", nullptr,
	       [&] (zw_error **e) { return dw ? zw_vocabulary_dwarf (e) : zw_vocabulary_core (e); },
	       &failed, &msg);
	    if (failed)
	      violation ("setup", "zw_vocabulary_core/dwarf: " + msg);
	    call_checked <bool> ("zw_vocabulary_add", false,
				 [&] (zw_error **e) { return zw_vocabulary_add (st.VOC[v], part, e); },
				 &failed, &msg);
	    if (failed)
	      ev << " fail msg=" << hexenc (msg);
	    else
	      ev << " ok";
	  }
      }
    else if (op == "PULL")
      {
	int r = argi (s, 0);
	int keep = s.args.size () >= 2 ? argi (s, 1) : -1;
	bool blind = s.args.size () >= 3 && s.args[2] == "blind";
	auto it = st.R.find (r);
	if (it == st.R.end () || it->second.ended || it->second.failed
	    || (keep >= 0 && st.O.count (keep)))
	  ev << " skip";
	else
	  {
	    zw_stack *out = reinterpret_cast <zw_stack *> (uintptr_t (0x7171717171717171ULL));
	    zw_stack *const untouched = out;
	    dwgrep_verif_tag = (unsigned long) r + 1;
	    call_checked <bool>
	      ("zw_result_next", false,
	       [&] (zw_error **e) { return zw_result_next (it->second.r, &out, e); },
	       &failed, &msg);
	    dwgrep_verif_tag = 0;
	    ev << " k=" << it->second.pulls;
	    if (failed)
	      {
		it->second.failed = true;
		ev << " fail msg=" << hexenc (msg) << " census=" << census (r);
	      }
	    else if (out == untouched)
	      contract_fail ("zw_result_next", "success reported but *out_stack not set");
	    else if (out == nullptr)
	      {
		it->second.ended = true;
		ev << " end";
	      }
	    else if (blind && keep >= 0)
	      {
		// kept without so much as looking at it
		ev << " stack";
		st.O[keep] = out;
		st.O_blind.insert (keep);
	      }
	    else
	      {
		std::string rend = safe_render (out);
		ev << " stack r=" << hexenc (rend);
		if (keep >= 0)
		  {
		    st.O[keep] = out;
		    st.O_render[keep] = rend;
		  }
		else
		  zw_stack_destroy (out);
	      }
	    ++it->second.pulls;
	    touch = true;
	  }
      }
    else if (op == "PULLX")
      {
	// A pull regardless of what the result set said before (end of
	// results, a failure): what comes out is not specified, but the
	// contract of the call still holds -- true means *out_stack was set.
	int r = argi (s, 0);
	auto it = st.R.find (r);
	if (it == st.R.end ())
	  ev << " skip";
	else
	  {
	    zw_stack *out = reinterpret_cast <zw_stack *> (uintptr_t (0x7171717171717171ULL));
	    zw_stack *const untouched = out;
	    dwgrep_verif_tag = (unsigned long) r + 1;
	    call_checked <bool>
	      ("zw_result_next", false,
	       [&] (zw_error **e) { return zw_result_next (it->second.r, &out, e); },
	       &failed, &msg);
	    dwgrep_verif_tag = 0;
	    ev << " was=" << (it->second.failed ? "failed" : it->second.ended ? "ended" : "live");
	    if (failed)
	      ev << " fail msg=" << hexenc (msg);
	    else if (out == untouched)
	      contract_fail ("zw_result_next", "success reported but *out_stack not set (pull after "
			     + std::string (it->second.failed ? "a failed pull" : it->second.ended ? "end of results" : "a result") + ")");
	    else if (out == nullptr)
	      ev << " end";
	    else
	      {
		ev << " stack";
		zw_stack_destroy (out);
	      }
	    touch = true;
	  }
      }
    else if (op == "CANCEL")
      {
	int r = argi (s, 0);
	auto it = st.R.find (r);
	if (it == st.R.end ())
	  ev << " skip";
	else
	  {
	    ev << " ok pulls=" << it->second.pulls
	       << " state=" << (it->second.failed ? "failed" : it->second.ended ? "ended" : "live")
	       << " census=" << census (r);
	    zw_result_destroy (it->second.r);
	    st.R.erase (it);
	    touch = true;
	  }
      }
    else if (op == "DROPO")
      {
	int o = argi (s, 0);
	if (! st.O.count (o))
	  ev << " skip";
	else
	  {
	    zw_stack_destroy (st.O[o]);
	    st.O.erase (o);
	    st.O_render.erase (o);
	    st.O_blind.erase (o);
	    ev << " ok";
	    touch = true;
	  }
      }
    else if (op == "RENDER")
      {
	int o = argi (s, 0);
	if (! st.O.count (o))
	  ev << " skip";
	else
	  {
	    std::string rend = safe_render (st.O[o]);
	    ev << " ok r=" << hexenc (rend);
	    if (st.O_blind.erase (o))
	      st.O_render[o] = rend;
	    touch = true;
	  }
      }
    else if (op == "REMAP")
      {
	// The file behind a path is replaced (as if overwritten on disk):
	// descriptors that are open keep what they had, later opens see the
	// new contents.
	if (s.args.size () >= 2)
	  {
	    fs_add_override (hexdec (s.args[0]), hexdec (s.args[1]), 0, {});
	    ev << " ok";
	  }
	else
	  ev << " skip why=" << hexenc ("bad-args");
      }
    else if (op == "NOP")
      ev << " ok";
    else
      ev << " skip why=" << hexenc ("unknown-op");

    bool fired = fs_io_fired_since_arm ();
    fs_disarm_io ();
    if (fired)
      ev << " iofired=1";

    std::string se = capture_stderr_take ();
    if (! se.empty ())
      ev << " err=" << hexenc (se);

    emit (ev.str ());
    flush_out ();

    if (touch)
      check_inputs_intact (st, idx);
  }

  void
  on_abort (int)
  {
    // assert() / abort(): pass on what was written to stderr just before.
    signal (SIGABRT, SIG_DFL);
    flush_out ();
    std::string se = capture_stderr_take ();
    if (se.size () > 2000)
      se = se.substr (se.size () - 2000);
    std::string line = "\nviol abort " + hexenc (se) + "\n";
    ssize_t r = write (g_out, line.data (), line.size ());
    (void) r;
    _exit (83);
  }

  void
  on_alarm (int)
  {
    static char const msg[] = "\nviol hang -\n";
    ssize_t r = write (g_out, msg, sizeof msg - 1);
    (void) r;
    _exit (81);
  }
}

[[noreturn]] void
contract_fail (char const *api, std::string const &what)
{
  violation ("contract", std::string (api) + ": " + what);
}

void
contract_count (char const *api, bool failed)
{
  auto &c = g_api_counts[api];
  ++c.first;
  if (failed)
    ++c.second;
}

void
prebuild_vocabulary ()
{
  // Runs in the pristine worker: building a vocabulary compiles nothing.
  zw_error *err = nullptr;
  zw_vocabulary *voc = zw_vocabulary_init (&err);
  if (voc == nullptr
      || ! zw_vocabulary_add (voc, zw_vocabulary_core (&err), &err)
      || ! zw_vocabulary_add (voc, zw_vocabulary_dwarf (&err), &err))
    {
      fprintf (stderr, "zsim: cannot build the vocabulary\n");
      exit (2);
    }
  g_prebuilt_voc = voc;
}

void
apply_environment (plan const &p)
{
  fs_reset ();
  fs_set_tests_dir (getenv ("ZSIM_TESTS_DIR") ? getenv ("ZSIM_TESTS_DIR") : "/repo/tests");
  fs_set_fixtures_dir (getenv ("ZSIM_FIXTURES_DIR") ? getenv ("ZSIM_FIXTURES_DIR") : "");
  for (auto const &f: p.files)
    fs_add_override (f.vpath, f.backing, f.open_errno, f.patches);
  fs_set_deny_mmap (p.knob ("deny_mmap", 0) != 0);
  hooks_set_poison ((int) p.knob ("poison", 85));
  hooks_set_cache_drop (p.knob ("cache_period", 0), p.knob ("cache_offset", 0));
  hooks_set_scon_fatal (p.knob ("scon_fatal", 1) != 0);
}

[[noreturn]] void
child_run_plan (plan const &p, int out_fd)
{
  g_out = out_fd;
  hooks_set_fail_sink (out_fd);

  signal (SIGALRM, on_alarm);
  signal (SIGABRT, on_abort);
  alarm ((unsigned) p.knob ("watchdog_s", 10));

#if ZSIM_ASAN
  if (char const *rp = getenv ("ZSIM_REPORT_PATH"))
    __sanitizer_set_report_path (rp);
#endif

  capture_stderr_start ();
  apply_environment (p);

  std::vector <int> fds_before = fs_all_fds ();

  {
    state st (p);

    for (size_t i = 0; i < p.steps.size (); ++i)
      run_step (st, (int) i, p.steps[i]);

    // Tear down whatever the plan left alive, in a fixed order.
    for (auto &r: st.R)
      zw_result_destroy (r.second.r);
    st.R.clear ();
    for (auto &o: st.O)
      zw_stack_destroy (o.second);
    st.O.clear ();
    for (auto &i: st.I)
      zw_stack_destroy (i.second);
    st.I.clear ();
    for (auto &q: st.Q)
      zw_query_destroy (q.second);
    st.Q.clear ();
    for (auto &v: st.V)
      zw_value_destroy (v.second);
    st.V.clear ();
    for (auto &v: st.VOC)
      zw_vocabulary_destroy (v.second);
    st.VOC.clear ();
    if (st.own_voc && st.voc != nullptr)
      zw_vocabulary_destroy (st.voc);
  }

  std::string se = capture_stderr_take ();
  if (! se.empty ())
    emit ("teardown-err " + hexenc (se));
  std::string so = captured_stdout ();
  if (! so.empty ())
    emit ("note stdout " + hexenc (so));

  // counters first, so that they survive an end-of-run violation
  fs_counters &fc = fs_stats ();
  emit ("ctr opens " + std::to_string (fc.opens));
  emit ("ctr opens_failed_injected " + std::to_string (fc.opens_failed_injected));
  emit ("ctr opens_alt " + std::to_string (fc.opens_alt));
  emit ("ctr reads " + std::to_string (fc.reads));
  emit ("ctr mmaps " + std::to_string (fc.mmaps));
  emit ("ctr mmaps_denied " + std::to_string (fc.mmaps_denied));
  emit ("ctr io_eio " + std::to_string (fc.io_eio));
  emit ("ctr io_short " + std::to_string (fc.io_short));
  emit ("ctr io_eintr " + std::to_string (fc.io_eintr));
  emit ("ctr patched_bytes " + std::to_string (fc.patched_bytes));
  emit ("ctr closes " + std::to_string (fc.closes));
  emit ("ctr double_close " + std::to_string (fc.double_close));
  emit ("ctr close_ebadf_in_libs " + std::to_string (fc.close_ebadf_in_libs));
  emit ("ctr stale_dwerr_set " + std::to_string (g_stale_dwerr_set));
  emit ("ctr cache_lookups " + std::to_string (hooks_cache_lookups ()));
  emit ("ctr cache_drops " + std::to_string (hooks_cache_drops ()));
  for (auto const &a: g_api_counts)
    emit ("api " + a.first + " " + std::to_string (a.second.first) + " "
	  + std::to_string (a.second.second));
  flush_out ();

  if (long n = dwgrep_verif_live_scons ())
    violation ("scon-live", std::to_string (n) + " scon objects alive after all API objects were destroyed");

  if (fc.close_ebadf > 0)
    violation ("fd-discipline", "close() of a descriptor handed out for a plan file returned EBADF (closed twice)");

  {
    auto tracked = fs_open_tracked ();
    if (! tracked.empty ())
      {
	std::string d;
	for (auto const &t: tracked)
	  d += t.second + " ";
	violation ("fd-leak", "descriptors for plan files still open after teardown: " + d);
      }
    std::vector <int> fds_after = fs_all_fds ();
    if (fds_after != fds_before)
      {
	std::string d = "before:";
	for (int fd: fds_before) d += " " + std::to_string (fd);
	d += " after:";
	for (int fd: fds_after) d += " " + std::to_string (fd);
	violation ("fd-leak", "descriptor table changed across the run: " + d);
      }
  }

#if ZSIM_ASAN
  if (p.knob ("leakcheck", 1))
    if (__lsan_do_recoverable_leak_check ())
      violation ("leak", "LeakSanitizer found unreachable allocations after teardown", 82);
#endif

  emit ("fin");
  flush_out ();
  _exit (0);
}
