#include "zsim.hh"

#include <cstring>
#include <sstream>

std::string
hexenc (std::string const &s)
{
  if (s.empty ())
    return "-";
  static char const *d = "0123456789abcdef";
  std::string r;
  r.reserve (s.size () * 2);
  for (unsigned char c: s)
    {
      r += d[c >> 4];
      r += d[c & 15];
    }
  return r;
}

static int
hv (char c)
{
  if (c >= '0' && c <= '9') return c - '0';
  if (c >= 'a' && c <= 'f') return c - 'a' + 10;
  if (c >= 'A' && c <= 'F') return c - 'A' + 10;
  return 0;
}

std::string
hexdec (std::string const &s)
{
  if (s == "-")
    return "";
  std::string r;
  r.reserve (s.size () / 2);
  for (size_t i = 0; i + 1 < s.size (); i += 2)
    r += (char) (hv (s[i]) * 16 + hv (s[i + 1]));
  return r;
}

std::vector <std::string>
split_ws (std::string const &line)
{
  std::vector <std::string> r;
  std::istringstream is (line);
  std::string t;
  while (is >> t)
    r.push_back (t);
  return r;
}

uint64_t
fnv1a (uint64_t h, void const *data, size_t len)
{
  auto p = static_cast <unsigned char const *> (data);
  for (size_t i = 0; i < len; ++i)
    {
      h ^= p[i];
      h *= 1099511628211ULL;
    }
  return h;
}

uint64_t
fnv1a (uint64_t h, std::string const &s)
{
  h = fnv1a (h, s.data (), s.size ());
  unsigned char z = 0xff;
  return fnv1a (h, &z, 1);
}

std::string
json_str (std::string const &s)
{
  std::string r = "\"";
  for (unsigned char c: s)
    {
      if (c == '"' || c == '\\')
	{
	  r += '\\';
	  r += (char) c;
	}
      else if (c < 0x20 || c >= 0x7f)
	{
	  char buf[8];
	  snprintf (buf, sizeof buf, "\\u%04x", c);
	  r += buf;
	}
      else
	r += (char) c;
    }
  return r + "\"";
}

bool
plan_read (FILE *in, plan &out, std::string &err)
{
  out = plan ();
  char *lineptr = nullptr;
  size_t cap = 0;
  bool started = false;
  ssize_t n;
  while ((n = getline (&lineptr, &cap, in)) >= 0)
    {
      std::string line (lineptr, n);
      auto t = split_ws (line);
      if (t.empty ())
	continue;
      started = true;
      std::string const &k = t[0];
      if (k == "end")
	{
	  free (lineptr);
	  return true;
	}
      else if (k == "plan" && t.size () >= 2)
	out.id = t[1];
      else if (k == "profile" && t.size () >= 2)
	out.profile = t[1];
      else if (k == "knob" && t.size () >= 3)
	out.knobs[t[1]] = atol (t[2].c_str ());
      else if (k == "file" && t.size () >= 4)
	{
	  plan_file pf {hexdec (t[1]), hexdec (t[2]), atoi (t[3].c_str ()), {}};
	  for (size_t i = 4; i < t.size (); ++i)
	    {
	      long off = 0;
	      int byte = 0;
	      if (sscanf (t[i].c_str (), "patch:%ld:%d", &off, &byte) == 2)
		pf.patches.push_back ({off, byte});
	    }
	  out.files.push_back (pf);
	}
      else if (k == "prog" && t.size () >= 4)
	{
	  size_t idx = atol (t[1].c_str ());
	  if (out.progs.size () <= idx)
	    out.progs.resize (idx + 1);
	  out.progs[idx] = {hexdec (t[3]), atoi (t[2].c_str ())};
	}
      else if (k == "step" && t.size () >= 3)
	{
	  plan_step s;
	  s.client = atoi (t[1].c_str ());
	  s.op = t[2];
	  for (size_t i = 3; i < t.size (); ++i)
	    if (t[i].compare (0, 3, "io:") == 0)
	      {
		// io:<nth>:<kind>
		int nth = 0, kind = 0;
		if (sscanf (t[i].c_str (), "io:%d:%d", &nth, &kind) == 2)
		  s.io.push_back ({nth, kind});
	      }
	    else
	      s.args.push_back (t[i]);
	  out.steps.push_back (s);
	}
      else
	{
	  err = "bad plan line: " + line;
	  free (lineptr);
	  return started;
	}
    }
  free (lineptr);
  if (started)
    err = "unexpected EOF inside plan";
  return false;
}
