#!/usr/bin/env python3
"""Run every seeded change (and the own sensitivity patches) against the check
of its property; record the outcome in seeded/<id>/meta.json and
seeded/RESULTS.md."""
import json, os, re, subprocess, sys, time
HERE = os.path.dirname(os.path.dirname(os.path.abspath(__file__)))
budget = sys.argv[1] if len(sys.argv) > 1 else "60"
only = sys.argv[2:] 
rows = []
def run(patch, prop, env=None):
    e = dict(os.environ)
    if env: e.update(env)
    r = subprocess.run([sys.executable, os.path.join(HERE, "tools", "mutest.py"), patch, prop, budget],
                       stdout=subprocess.PIPE, stderr=subprocess.STDOUT, env=e)
    out = [l for l in r.stdout.decode(errors="replace").splitlines() if not l.startswith("build")]
    return out[-1] if out else "?"
ids = sorted(os.listdir(os.path.join(HERE, "seeded")))
for mid in ids:
    d = os.path.join(HERE, "seeded", mid)
    if not os.path.isdir(d) or not os.path.isfile(os.path.join(d, "meta.json")) or (only and mid not in only): continue
    meta = json.load(open(os.path.join(d, "meta.json")))
    prop = meta["property"]
    line = run(os.path.join(d, "patch.diff"), prop)
    res = line.split(": ", 1)[1] if ": " in line else line
    if res.startswith("MISSED") and prop == "C12":
        line2 = run(os.path.join(d, "patch.diff"), prop, {"VERIF_VARIANT": "plain"})
        res2 = line2.split(": ", 1)[1] if ": " in line2 else line2
        if res2.startswith("CAUGHT"): res = res2 + " [plain build]"
    meta.setdefault("checks", {})[prop] = {"result": res, "budget_s": int(budget), "when": time.strftime("%Y-%m-%d %H:%M")}
    json.dump(meta, open(os.path.join(d, "meta.json"), "w"), indent=1)
    rows.append((mid, prop, res))
    print(mid, prop, res, flush=True)
if not only:
    with open(os.path.join(HERE, "seeded", "RESULTS.md"), "w") as f:
        f.write("# Seeded changes vs checks (quick tier, %s s budget, seed 1)\n\n| id | property | result |\n|----|----------|--------|\n" % budget)
        for r in rows: f.write("| %s | %s | %s |\n" % r)
