#!/bin/bash
# usage: confirm_mutation.sh <worktree> <n>
# Confirms in the scratch worktree that mutation n: applies, compiles, keeps the 7 ctest tests passing,
# and that its demo fails with the patch and passes without.
WT=$1; N=$2; M=$WT/MUTATIONS/$N
cd $WT || exit 2
git checkout -q -- libzwerg dwgrep
cmake -G Ninja -S . -B _build -DCMAKE_BUILD_TYPE=RelWithDebInfo -DCMAKE_CXX_FLAGS=-Wno-error > /tmp/confirm-cfg.log 2>&1
git apply --whitespace=nowarn $M/patch.diff || { echo "CONFIRM $N: patch does not apply"; exit 1; }
cmake --build _build -- -k 0 > /tmp/confirm-build.log 2>&1
CT=$(ctest --test-dir _build -j8 2>&1 | grep -c "Passed")
if [ -f $M/build.sh ]; then (bash $M/build.sh > $M/confirm-mutant.txt 2>&1); RC1=$?; else RC1=99; fi
git checkout -q -- libzwerg dwgrep
cmake --build _build -- -k 0 > /tmp/confirm-build2.log 2>&1
if [ -f $M/build.sh ]; then (bash $M/build.sh > $M/confirm-clean.txt 2>&1); RC2=$?; else RC2=99; fi
echo "CONFIRM $N: ctest_passed=$CT demo_with_patch_rc=$RC1 demo_clean_rc=$RC2"
