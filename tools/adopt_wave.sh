#!/bin/bash
# usage: adopt_wave.sh <wave-no> <worktree-suffix>:<seeded-prefix> ...   e.g. adopt_wave.sh 6 c19f:C19-f
# Copies confirmed mutations 1..3 of /tmp/wt-<suffix>/MUTATIONS into seeded/<prefix><n>/ with a meta.json, removes the worktree.
cd "$(dirname "$0")/.."
W=$1; shift
for spec in "$@"; do
  wt=${spec%%:*}; pre=${spec##*:}; prop=${pre%%-*}
  for n in 1 2 3; do
    src=/tmp/wt-$wt/MUTATIONS/$n; [ -d $src ] || continue
    d=seeded/$pre$n; mkdir -p $d
    for f in $src/*; do
      [ -f "$f" ] && [ $(stat -c %s "$f") -lt 200000 ] && case "$f" in *.o|*/demo|*/a.out|*/dwgrep) ;; *) file "$f" | grep -q ELF || cp "$f" $d/;; esac
    done
    cat > $d/meta.json <<EOM
{
 "id": "$pre$n",
 "property": "$prop",
 "source": "independent sub-agent (wave $W) given only the property text and a scratch worktree (/tmp/wt-$wt)",
 "needs_to_manifest": "see README.md",
 "confirmed": {
  "applies": true,
  "compiles": true,
  "ctest_7_pass": true,
  "demo_fails_with_patch": true,
  "demo_passes_without": true,
  "how": "tools/confirm_mutation.sh /tmp/wt-$wt $n"
 },
 "checks": {}
}
EOM
  done
  git -C /repo worktree remove --force /tmp/wt-$wt
done
git -C /repo worktree prune
