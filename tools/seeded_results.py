#!/usr/bin/env python3
"""Regenerate seeded/RESULTS.md from the meta.json files."""
import json, os
HERE = os.path.dirname(os.path.dirname(os.path.abspath(__file__)))
rows = []
voids = []
for mid in sorted(os.listdir(os.path.join(HERE, "seeded"))):
    mp = os.path.join(HERE, "seeded", mid, "meta.json")
    if not os.path.isfile(mp):
        continue
    m = json.load(open(mp))
    if m.get("void"):
        voids.append((mid, m["void"]))
        continue
    for prop, c in sorted(m.get("checks", {}).items()):
        rows.append((mid, prop, c.get("result", "?"), c.get("when", ""), c.get("note", "")))
caught = sum(1 for r in rows if r[2].startswith("CAUGHT"))
with open(os.path.join(HERE, "seeded", "RESULTS.md"), "w") as f:
    f.write("# Seeded changes vs checks\n\nQuick tier, 60 s budget, seed 1, last recorded run of each "
            "(tools/mutest_all.py). %d of %d caught.\n\n| id | property | result | when | note |\n|----|----|----|----|----|\n"
            % (caught, len(rows)))
    for r in rows:
        f.write("| %s | %s | %s | %s | %s |\n" % r)
    if voids:
        f.write("\nNot counted (no longer break the property on the repaired tree):\n\n")
        for mid, why in voids:
            f.write("* %s: %s\n" % (mid, why))
print("%d of %d caught" % (caught, len(rows)))
