#!/usr/bin/env python3
"""Debug helper: run one (prop, seed, index) or a replay file and dump the events."""
import json, os, random, sys
HERE = os.path.dirname(os.path.dirname(os.path.abspath(__file__)))
sys.path.insert(0, HERE)
import importlib.machinery, importlib.util
loader = importlib.machinery.SourceFileLoader("checkmod", os.path.join(HERE, "check"))
spec = importlib.util.spec_from_loader("checkmod", loader)
C = importlib.util.module_from_spec(spec); loader.exec_module(C)
from zs import proc, profiles, plan as P

def dump(resp):
    for e in resp.events:
        f = {k: (P.hexdec(v).decode('latin1')[:300] if k in ('r', 'msg', 'err', 'why') else v) for k, v in e.fields.items()}
        print(e.idx, e.client, e.op, " ".join(e.args), "=>", e.outcome, f)
    print("viol", resp.viol, "exit", resp.exit, "sig", resp.sig, "fin", resp.fin)
    if resp.log: print(resp.log[:3000])

if __name__ == "__main__":
    exe = os.path.join(HERE, "build", os.environ.get("VARIANT", "asan"), "zsim")
    z = proc.Zsim(exe)
    if sys.argv[1].endswith(".json"):
        rep = json.load(open(sys.argv[1])); plan = rep["plan"]; prop = rep["property"]
    else:
        prop, seed, idx = sys.argv[1], int(sys.argv[2]), int(sys.argv[3])
        plan, cfg = profiles.make_plan(prop, random.Random(C.mix(seed, idx)), idx, "quick")
        print("config", cfg)
    print(json.dumps(plan["knobs"]), plan["files"])
    for i, p in enumerate(plan["progs"]): print("prog", i, p["mode"], repr(p["text"]))
    if "-v" in sys.argv:
        for s in plan["steps"]: print(s)
    resp = z.run(plan)
    dump(resp)
    try:
        o = profiles.run(z, plan, prop)
        print("violation:", o.violation and (o.violation.klass_str, o.violation.detail[:1500]), "other:", o.other, "discarded:", o.discarded)
    except Exception as e:
        import traceback; traceback.print_exc()
    z.close()
