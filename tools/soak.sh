#!/bin/bash
# usage: tools/soak.sh <first_seed> <last_seed> [budget_s]  -- quick checks over many seeds on the current tree;
# prints one line per (property, seed) and lists every non-zero exit at the end.
cd "$(dirname "$0")/.."
B=${3:-20}
bad=0
for seed in $(seq $1 $2); do
  for p in C12 C13 C14 C19; do
    out=$(VERIF_SEED=$seed VERIF_BUDGET_S=$B VERIF_DET_N=24 ./check $p quick 2>&1); rc=$?
    echo "seed=$seed $p rc=$rc $(echo "$out" | tail -1)"
    if [ $rc -ne 0 ]; then bad=$((bad+1)); echo "$out" | tail -15 | sed 's/^/    /'; fi
  done
done
echo "soak: $bad non-zero exits"
