#!/usr/bin/env python3
"""Apply a patch to /repo, run the given checks (quick, bounded), revert.

usage: tools/mutest.py <patch.diff> <PROP>[,<PROP>...] [budget_s] [seed]
Prints one line per check: CAUGHT <class> / MISSED / BROKEN, and always
restores /repo (git checkout -- .)."""
import json, os, re, subprocess, sys, time
HERE = os.path.dirname(os.path.dirname(os.path.abspath(__file__)))
REPO = "/repo"

def sh(cmd, **kw):
    return subprocess.run(cmd, shell=True, stdout=subprocess.PIPE, stderr=subprocess.STDOUT, **kw)

def main():
    patch = os.path.abspath(sys.argv[1])
    props = sys.argv[2].split(",")
    budget = sys.argv[3] if len(sys.argv) > 3 else "40"
    seed = sys.argv[4] if len(sys.argv) > 4 else "1"
    st = sh("git -C %s status --porcelain --untracked-files=no" % REPO).stdout.decode().strip()
    if st:
        print("mutest: /repo has modified tracked files, refusing:\n" + st)
        return 2
    r = sh("git -C %s apply --whitespace=nowarn %s" % (REPO, patch))
    if r.returncode != 0:
        print("mutest: patch does not apply:\n" + r.stdout.decode())
        return 2
    results = {}
    try:
        for p in props:
            env = dict(os.environ, VERIF_BUDGET_S=budget, VERIF_SEED=seed, VERIF_DET_N="0",
                       VERIF_MINIMISE_S="40")
            t0 = time.time()
            r = sh("cd %s && ./check %s quick" % (HERE, p), env=env)
            out = r.stdout.decode(errors="replace")
            m = re.search(r"VIOLATION property=(\S+) replay=(\S+)", out)
            if r.returncode == 1 and m:
                rep = json.load(open(m.group(2)))
                results[p] = "CAUGHT %s (run %s, %d steps, %.0fs)" % (rep["class"], rep.get("run_index"), len(rep["plan"].get("steps", [])), time.time() - t0)
                keep = os.path.join(HERE, "sens", "last-%s-%s.json" % (os.path.basename(os.path.dirname(patch)) or "m", p))
                os.replace(m.group(2), keep)
            elif r.returncode == 0:
                results[p] = "MISSED (%.0fs) %s" % (time.time() - t0, out.strip().splitlines()[-1] if out.strip() else "")
            else:
                results[p] = "BROKEN rc=%d\n%s" % (r.returncode, out[-1500:])
    finally:
        sh("git -C %s checkout -- ." % REPO)
        # leave no mutated binary behind for ad-hoc scripts that use build/*/zsim directly
        sh("cd %s && python3 build.py asan && python3 build.py plain" % HERE)
    for p in props:
        print("%s %s: %s" % (os.path.basename(os.path.dirname(patch)) or patch, p, results.get(p)))
    return 0

if __name__ == "__main__":
    sys.exit(main())
