#!/usr/bin/env python3
"""Content-hash build of /repo's working tree plus the zsim harness.

Every object is keyed by a hash of (compiler flags, the source file, every
header of the repo and of the harness, the generated headers), so an edit
anywhere under /repo is picked up and an unchanged tree rebuilds nothing.

Variants:
  asan   -O1 -g -fsanitize=address,undefined (asserts on)   -> build/asan/zsim
  plain  -O2 -g, no sanitizer (asserts on)                   -> build/plain/zsim
Both are compiled with -DDWGREP_VERIF (hooks on).
"""
import concurrent.futures
import fcntl
import glob
import hashlib
import os
import subprocess
import sys
import time

REPO = os.environ.get("VERIF_REPO", "/repo")
HERE = os.path.dirname(os.path.abspath(__file__))
BUILD = os.path.join(HERE, "build")
SIM = os.path.join(HERE, "sim")
CXX = os.environ.get("VERIF_CXX", "g++")
JOBS = int(os.environ.get("VERIF_JOBS", str(os.cpu_count() or 8)))

COMMON = ["-g", "-fno-omit-frame-pointer", "-DDWGREP_VERIF",
          "-Wno-deprecated-declarations", "-w"]
VARIANTS = {
    "asan": ["-O1", "-fsanitize=address,undefined",
             "-fno-sanitize-recover=undefined", "-DZSIM_ASAN=1",
             # ASan also sees accesses between size() and capacity() of a vector
             "-D_GLIBCXX_SANITIZE_VECTOR=1",
             # automatic variables without an initialiser hold 0xFE bytes here
             # and whatever the stack held in the plain build: a result that
             # depends on one differs between the two builds (C13 divergence oracle)
             "-ftrivial-auto-var-init=pattern"],
    "plain": ["-O2", "-DZSIM_ASAN=0"],
}
LINK = {
    "asan": ["-fsanitize=address,undefined"],
    "plain": [],
}


def sha(*parts):
    h = hashlib.sha256()
    for p in parts:
        if isinstance(p, str):
            p = p.encode()
        h.update(p)
        h.update(b"\0")
    return h.hexdigest()


def read(p):
    with open(p, "rb") as f:
        return f.read()


def run(cmd, **kw):
    r = subprocess.run(cmd, stdout=subprocess.PIPE, stderr=subprocess.STDOUT, **kw)
    if r.returncode != 0:
        sys.stderr.write("build: command failed: %s\n%s\n" %
                         (" ".join(cmd), r.stdout.decode(errors="replace")))
        raise SystemExit(2)
    return r.stdout


def repo_sources():
    lz = os.path.join(REPO, "libzwerg")
    srcs = []
    for p in sorted(glob.glob(os.path.join(lz, "*.cc"))):
        b = os.path.basename(p)
        if b.startswith("test-") or b == "dwgrep-gendoc.cc":
            continue
        srcs.append(p)
    return srcs


def generate(gen):
    """flex, bison, gawk, version.h -> gen/ ; regenerated when inputs change."""
    os.makedirs(gen, exist_ok=True)
    lz = os.path.join(REPO, "libzwerg")
    inputs = [os.path.join(lz, "lexer.ll"), os.path.join(lz, "parser.yy"),
              os.path.join(REPO, "known-dwarf.awk"), os.path.join(REPO, "known-elf.awk"),
              os.path.join(REPO, "VERSION.cmake"), os.path.join(REPO, "version.h.in"),
              "/usr/include/dwarf.h", "/usr/include/elf.h"]
    key = sha(*[read(p) for p in inputs])
    keyf = os.path.join(gen, ".key")
    if os.path.exists(keyf) and open(keyf).read() == key:
        return
    run(["flex", "--header-file=" + os.path.join(gen, "lexer.hh"),
         "-o", os.path.join(gen, "lexer.cc"), os.path.join(lz, "lexer.ll")])
    run(["bison", "-o", os.path.join(gen, "parser.cc"),
         "--defines=" + os.path.join(gen, "parser.hh"), os.path.join(lz, "parser.yy")])
    for nm, hdr in (("dwarf", "/usr/include/dwarf.h"), ("elf", "/usr/include/elf.h")):
        out = run(["gawk", "-f", os.path.join(REPO, "known-%s.awk" % nm), hdr])
        with open(os.path.join(gen, "known-%s.h" % nm), "wb") as f:
            f.write(out)
    ver = {}
    for line in open(os.path.join(REPO, "VERSION.cmake")):
        line = line.strip()
        if line.startswith("SET(") or line.startswith("SET ("):
            body = line[line.index("(") + 1:line.rindex(")")].split()
            ver[body[0]] = body[1].strip('"')
    txt = open(os.path.join(REPO, "version.h.in")).read()
    for k, v in ver.items():
        txt = txt.replace("@%s@" % k, v)
    with open(os.path.join(gen, "version.h"), "w") as f:
        f.write(txt)
    with open(keyf, "w") as f:
        f.write(key)


def header_hash(gen, with_sim):
    pats = [os.path.join(REPO, "libzwerg", "*.hh"), os.path.join(REPO, "libzwerg", "*.h"),
            os.path.join(REPO, "extern", "*"), os.path.join(REPO, "dwgrep", "*.hh"),
            os.path.join(gen, "*.hh"), os.path.join(gen, "*.h")]
    if with_sim:
        pats += [os.path.join(SIM, "*.hh"), os.path.join(SIM, "*.h")]
    parts = []
    for pat in pats:
        for p in sorted(glob.glob(pat)):
            if os.path.isfile(p):
                parts.append(p)
                parts.append(read(p))
    return sha(*parts)


def build(variant, quiet=False):
    t0 = time.time()
    os.makedirs(BUILD, exist_ok=True)
    lock = open(os.path.join(BUILD, ".lock"), "w")
    fcntl.flock(lock, fcntl.LOCK_EX)
    try:
        out = os.path.join(BUILD, variant)
        gen = os.path.join(BUILD, "gen")
        os.makedirs(out, exist_ok=True)
        generate(gen)
        hh_repo = header_hash(gen, False)
        hh_sim = header_hash(gen, True)
        flags = COMMON + VARIANTS[variant]
        incs = ["-I" + gen, "-I" + os.path.join(REPO, "libzwerg"), "-I" + REPO, "-I" + SIM]

        units = []   # (src, obj, extra flags)
        for s in repo_sources():
            units.append((s, "r_" + os.path.basename(s)[:-3] + ".o", ["-std=c++14"]))
        units.append((os.path.join(gen, "lexer.cc"), "g_lexer.o", ["-std=c++14"]))
        units.append((os.path.join(gen, "parser.cc"), "g_parser.o", ["-std=c++14"]))
        units.append((os.path.join(REPO, "dwgrep", "dwgrep.cc"), "c_dwgrep.o",
                      ["-std=c++14", "-Dmain=dwgrep_main"]))
        units.append((os.path.join(REPO, "dwgrep", "options.cc"), "c_options.o", ["-std=c++14"]))
        for s in sorted(glob.glob(os.path.join(SIM, "*.cc"))):
            units.append((s, "s_" + os.path.basename(s)[:-3] + ".o", ["-std=c++17"]))

        todo = []
        objs = []
        for src, obj, extra in units:
            objp = os.path.join(out, obj)
            objs.append(objp)
            hh = hh_sim if obj.startswith("s_") else hh_repo
            key = sha(CXX, " ".join(flags + extra + incs), hh, read(src))
            keyf = objp + ".key"
            if os.path.exists(objp) and os.path.exists(keyf) and open(keyf).read() == key:
                continue
            todo.append((src, objp, extra, key))

        def compile_one(t):
            src, objp, extra, key = t
            if os.path.exists(objp + ".key"):
                os.unlink(objp + ".key")
            run([CXX] + flags + extra + incs + ["-c", src, "-o", objp])
            with open(objp + ".key", "w") as f:
                f.write(key)

        if todo:
            # biggest translation units first
            todo.sort(key=lambda t: -os.path.getsize(t[0]))
            with concurrent.futures.ThreadPoolExecutor(JOBS) as ex:
                list(ex.map(compile_one, todo))

        exe = os.path.join(out, "zsim")
        lkey = sha(*[open(o + ".key").read() for o in objs], " ".join(LINK[variant]))
        lkeyf = exe + ".key"
        if not (os.path.exists(exe) and os.path.exists(lkeyf) and open(lkeyf).read() == lkey):
            run([CXX] + LINK[variant] + ["-o", exe] + objs + ["-ldw", "-lelf", "-ldl"])
            with open(lkeyf, "w") as f:
                f.write(lkey)
        if not quiet:
            sys.stderr.write("build[%s]: %d/%d objects compiled, %.1fs\n" %
                             (variant, len(todo), len(units), time.time() - t0))
        return exe
    finally:
        fcntl.flock(lock, fcntl.LOCK_UN)
        lock.close()


if __name__ == "__main__":
    for v in (sys.argv[1:] or ["asan"]):
        print(build(v))
