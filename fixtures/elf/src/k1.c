/* const_value of an unnamed aggregate, location lists, ranges, inlining */
static const struct { int a; int b; } pp = {3, 4};
static const int arr[3] = {1, 2, 3};
enum color { RED = -1, GREEN = 0, BLUE = 0x7fffffff };
typedef unsigned long ulong_t;
struct node { struct node *next; ulong_t v : 7; ulong_t w : 9; enum color c; };
static inline int sq (int x) { return x * x; }
int f (struct node *n, int k)
{
  int s = pp.a + arr[1];
  for (; n; n = n->next)
    {
      int t = sq (n->v + k);
      if (t > 10)
	s += t;
      else
	s -= n->w;
    }
  return s + pp.b;
}
int g (int a) { volatile int q = a; { int q2 = q * 2; q = q2; } return f (0, q) + sq (a); }
