// namespaces, templates with value parameters, member pointers, references, default arguments
namespace N { namespace M { template <class T, int K> struct S { T v[K]; static const int k = K; T get (int i = 0) const { return v[i]; } }; } }
struct B { virtual ~B () {} virtual int m (int) const = 0; int B::*pm; };
struct D : B { int x; int m (int a) const override { return a + x; } };
enum class E : unsigned char { a = 1, b = 255 };
static const char16_t c16 = u'x';
static const double dd = 2.5;
constexpr bool flag = true;
int h (N::M::S <long, 3> const &s, D &d, E e = E::b)
{
  int (D::*pf) (int) const = &D::m;
  return s.get () + (d.*pf) (static_cast <int> (e)) + c16 + (int) dd + flag;
}
