int nodebug (void) { return 1; }
