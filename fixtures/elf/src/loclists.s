# A hand-made object file: one DWARF 4 compile unit (base address
# 0x1000) with two variables whose locations are location lists in
# .debug_loc.  The list of `a' contains a base address selection entry
# (begin == -1) in the middle, which is legal DWARF (DWARF 4, 2.6.2) and
# what compilers emit for units that span several sections.
#
# All numbers are absolute, so there are no relocations.
	.text
	.globl	f
f:
	ret

	.section	.debug_info,"",@progbits
.Linfo:
	.long	.Linfo_end - .Linfo_start	# unit_length
.Linfo_start:
	.value	4			# version
	.long	0			# debug_abbrev_offset
	.byte	8			# address_size
	.uleb128 1			# [b] DW_TAG_compile_unit
	.string	"loclists.c"		#   DW_AT_name
	.quad	0x1000			#   DW_AT_low_pc
	.quad	0x9000			#   DW_AT_high_pc (data8: length)
	.uleb128 2			# DW_TAG_variable
	.string	"a"			#   DW_AT_name
	.long	.Llist_a - .Lloc	#   DW_AT_location (sec_offset)
	.uleb128 2			# DW_TAG_variable
	.string	"b"			#   DW_AT_name
	.long	.Llist_b - .Lloc	#   DW_AT_location (sec_offset)
	.byte	0			# end of children
.Linfo_end:

	.section	.debug_abbrev,"",@progbits
	.uleb128 1			# abbrev 1
	.uleb128 0x11			# DW_TAG_compile_unit
	.byte	1			# has children
	.uleb128 0x3			# DW_AT_name
	.uleb128 0x8			# DW_FORM_string
	.uleb128 0x11			# DW_AT_low_pc
	.uleb128 0x1			# DW_FORM_addr
	.uleb128 0x12			# DW_AT_high_pc
	.uleb128 0x7			# DW_FORM_data8
	.byte	0
	.byte	0
	.uleb128 2			# abbrev 2
	.uleb128 0x34			# DW_TAG_variable
	.byte	0			# no children
	.uleb128 0x3			# DW_AT_name
	.uleb128 0x8			# DW_FORM_string
	.uleb128 0x2			# DW_AT_location
	.uleb128 0x17			# DW_FORM_sec_offset
	.byte	0
	.byte	0
	.byte	0

	.section	.debug_loc,"",@progbits
.Lloc:
.Llist_a:
	.quad	0x10			# [base 0x1000] 0x1010..0x1020: reg0
	.quad	0x20
	.value	1
	.byte	0x50
	.quad	-1			# base address selection: 0x5000
	.quad	0x5000
	.quad	0x10			# [base 0x5000] 0x5010..0x5020: reg1
	.quad	0x20
	.value	1
	.byte	0x51
	.quad	0x30			# [base 0x5000] 0x5030..0x5040: reg2
	.quad	0x40
	.value	1
	.byte	0x52
	.quad	0			# end of list
	.quad	0
.Llist_b:
	.quad	0x100			# [base 0x1000] 0x1100..0x1200: reg3
	.quad	0x200
	.value	1
	.byte	0x53
	.quad	0x300			# [base 0x1000] 0x1300..0x1400: reg4
	.quad	0x400
	.value	1
	.byte	0x54
	.quad	0			# end of list
	.quad	0
