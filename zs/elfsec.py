"""Minimal ELF section-header reader (enough to aim a damaged byte at a
DWARF section of one of the sample binaries)."""
import struct


def sections(path):
    with open(path, "rb") as f:
        data = f.read()
    if data[:4] != b"\x7fELF":
        return {}, data
    is64 = data[4] == 2
    end = "<" if data[5] == 1 else ">"
    if is64:
        e_shoff, = struct.unpack_from(end + "Q", data, 0x28)
        e_shentsize, e_shnum, e_shstrndx = struct.unpack_from(end + "HHH", data, 0x3A)
    else:
        e_shoff, = struct.unpack_from(end + "I", data, 0x20)
        e_shentsize, e_shnum, e_shstrndx = struct.unpack_from(end + "HHH", data, 0x2E)
    secs = []
    for i in range(e_shnum):
        o = e_shoff + i * e_shentsize
        if is64:
            name, typ, flags, addr, off, size = struct.unpack_from(end + "IIQQQQ", data, o)
        else:
            name, typ, flags, addr, off, size = struct.unpack_from(end + "IIIIII", data, o)
        secs.append((name, typ, off, size))
    if e_shstrndx >= len(secs):
        return {}, data
    stroff = secs[e_shstrndx][2]
    out = {}
    for name, typ, off, size in secs:
        endn = data.find(b"\0", stroff + name)
        nm = data[stroff + name:endn].decode("latin-1")
        if typ != 8 and size > 0:      # not NOBITS
            out[nm] = (off, size)
    return out, data
