"""C19: the dwgrep command line in a simulated file system, against a small
reference model (DESIGN.md 4.4).

One plan = one invocation.  plan["cli"] describes it symbolically (options,
query and how it is given, file arguments with their health, -a/--a
arguments); the argv/stdin steps are derived from that, so the minimiser
edits the symbolic form.  The expected behaviour is computed from a
library-driver run (an ordinary zsim plan) on the same files."""
import errno
import os
import re

from . import engine as E
from . import oracle as O
from . import plan as P
from . import hist

FIX = hist.FIX
CAP = 150

HEALTHY = ["a1.out", "twocus", "nullptr.o", "typedef.o", "enum.o", "y.o", "empty", "dwz-partial2-1",
           "bitcount.o", "haschildren_childless", "k1.o"]
SICK = [("errno", errno.ENOENT), ("errno", errno.EACCES), ("errno", errno.EMFILE), ("errno", errno.EISDIR),
        ("backing", "text.txt"), ("backing", "empty"), ("backing", "trunc.elf"), ("backing", "adir"),
        ("backing", "garbage.bin"), ("hdr-eio", None)]

BOMB = "?(%d !eq || drop drop drop drop drop drop drop drop drop drop)"    # fails on the item whose value is %d

BODIES = [
    # (text, class)
    ("1 (== 2)", "none"), ("!()", "none"), ("[] elem", "none"),
    ("1", "one"), ("\"abc\"", "one"), ("0x10", "one"), ("DW_TAG_subprogram", "one"), ("-5", "one"),
    ("\"a\\nb\"", "one"), ("\"\"", "one"), ("[1, 2, 3]", "one"), ("[\"a\", 5, []]", "one"), ("true", "one"),
    ("010", "one"), ("0b101", "one"), ("\"x%( 1 2 add %)y\"", "one"),
    ("(1, 2, 3)", "many"), ("[1, 2, 3] elem \"%s\"", "many"), ("(1, 2) (10, 20) add", "many"),
    ("(\"a\", \"b\")", "many"), ("0 (1 add ?(4 ?lt))*", "many"), ("(1, 2, 3) ?(2 ?ne)", "many"),
    ("1 2", "multi"), ("(1, 2) \"x\"", "multi"), ("1 \"two\" 3", "multi"), ("(1, 2) dup", "multi"),
    ("(1, 2, 3) " + BOMB % 1, "fail"), ("(1, 2, 3) " + BOMB % 2, "fail"), ("(1, 2, 3) " + BOMB % 3, "fail"),
    ("drop drop drop drop drop drop drop drop drop", "fail"), ("[5, 6, 7] elem " + BOMB % 6, "fail"),
    ("1 )", "reject"), ("nosuchword", "reject"), ("\"abc", "reject"), ("0x", "reject"),
    ("let A := 1; let A := 2;", "reject"), ("?(let A := 1;) A", "reject"), ("(", "reject"),
    ("1 \"a\" add", "soft"), ("(1, 2) apply", "soft"),
    ("\"a%( 1\n %)b\"", "one"), ("(1,\n 2)", "many"), ("\"%( (1, 2)\n\n %)\"", "many"),
    ("# c\n1", "one"), ("1 // x\n2", "multi"), ("# only a comment\n(1, 2)", "many"), ("\"a\nb\"", "one"),
    ("1 /* c\nd */ 2", "multi"), ("// c\n1 (== 2)", "none"), ("# c\n1 )", "reject"), ("# c\n(1, 2) " + BOMB % 2, "fail"),
    # results that are empty stacks (nothing to print for them) in between others
    ("1 drop", "one"), ("(1 drop, 2)", "many"), ("(1, 1 drop, 2)", "many"), ("(1 drop, 1 drop, 3)", "many"),
    ("(1, 2) (drop, )", "many"), ("1 (drop, dup)", "many"), ("(1 drop, \"x\" 2)", "multi"),
    ("(1, 1 2, 3)", "multi"), ("(1 2, 3, 4 5)", "multi"), ("(1 2, 3)", "multi"), ("(1, 2 3 4)", "multi"),
]

DW_PREFIX = [
    ("", "keep"),                   # Dwarf value stays below
    ("(drop, )", "keep"),           # ... or not: one result with the Dwarf value dropped, one with it kept
    ("drop", "consume"),
    ("unit offset", "scalar"), ("entry offset", "scalar"), ("[entry] length", "scalar"), ("name", "scalar"),
    ("entry ?root name", "scalar"), ("entry ?root label", "scalar"), ("[unit] length", "scalar"),
    ("entry ?(offset 0x40 ?lt) offset", "scalar"), ("entry ?TAG_subprogram name", "scalar"),
]

# queries whose results are DWARF values (DIEs, units, attributes, symbols): the model does not
# say how those are rendered, but several files must print what each file prints alone
DWVAL_BODIES = ["entry", "unit", "(unit, entry)", "entry dup unit", "entry attribute", "entry ?root child", "unit root",
                "symbol", "entry @AT_type", "abbrev", "[entry] elem", "entry ?root [child]", "entry ?root", "unit dup root",
                "entry ?root dup unit swap", "[unit] elem", "entry abbrev", "entry @AT_location", "entry address"]

ARG_LIT = ["x", "foo", "a1", "hello", "7", "zz9"]
# -a passes its argument verbatim, whatever is in it
ARG_LIT_SPECIAL = ["100%%", "a%(1 2 add%)b", "%d items", "50%", "q\"uote", "back\\slash", "%s", "%", "a b", "%x%%",
                   "printf(\"%s\\n\")", "", "-x", "let"]
ARG_EVAL_RUNTIME_FAIL = ["drop", "(1, 2) " + BOMB % 2, "(1, drop)", "(1, 2, drop)", "(1, 2, 3) " + BOMB % 3, "[drop]", "(1, 2) (|A| A " + BOMB % 2 + ")"]
ARG_EVAL = [("(1, drop)", -2), ("(1, 2, drop)", -2), ("(1, 2, 3) " + BOMB % 3, -2), ("[drop]", -2),
            ("1", 1), ("\"s\"", 1), ("(1, 2)", 2), ("(\"a\", \"b\", \"c\")", 3), ("10 20", 1),
            ("1 (== 2)", 0), ("0x1f", 1), ("(7, 8, 9) ?(8 ?ne)", 2), ("[1, 2]", 1),
            ("1 )", -1), ("nosuch", -1), ("drop", -2), ("(1, 2) " + BOMB % 2, -2)]


SC_STR = ["a", "", "caf\\xc3\\xa9", "\\xff", "\\x80\\x81", "\\x01", "\\x7f", "\\x1f\\x10", "\\t", "\\n", "q\\\"q", "\\\\",
          "x y", "%%", "\\x0e", "z\\xfez", "\\101", "tab\\there", "\\xe2\\x82\\xac", "a,b", "[x]", "0"]
SC_CONST = ["16", "0x10", "020", "0b10000", "0", "-1", "1", "255", "0xff", "0377", "0xffffffffffffffff", "18446744073709551615",
            "-9223372036854775808", "9223372036854775807", "true", "false", "DW_TAG_subprogram", "DW_TAG_base_type",
            "DW_AT_name", "DW_FORM_strp", "DW_LANG_C89", "DW_ATE_signed", "T_CONST", "T_STR", "DW_OP_addr",
            "16 hex", "16 oct", "16 bin", "0x10 dec", "-1 hex", "255 bin", "0 hex", "true value", "DW_TAG_subprogram value",
            "DW_AT_name value hex", "0x2e", "46", "DW_TAG_subprogram hex" , "1 2 add", "0x10 1 add", "010 1 add"]


def gen_scalar_value(rng, depth=0):
    k = rng.random()
    if k < 0.35:
        return '"%s"' % "".join(rng.choice(SC_STR) for _ in range(rng.choice([1, 1, 2])))
    if k < 0.8 or depth >= 2:
        c_ = rng.choice(SC_CONST)
        return c_ if " " not in c_ else "(" + c_ + ")"
    n = rng.choice([0, 1, 2, 3, 4])
    return "[" + ", ".join(gen_scalar_value(rng, depth + 1) for _ in range(n)) + "]"


def gen_scalar_body(rng):
    """Scalars of every printable kind, next to one another: constants of all
    domains (equal values in different ones side by side), strings with bytes
    that need escaping in the brief form, nested sequences of those."""
    k = rng.random()
    if k < 0.3:
        return gen_scalar_value(rng), "one"
    if k < 0.6:
        return "(" + ", ".join(gen_scalar_value(rng) for _ in range(rng.choice([2, 3, 4]))) + ")", "many"
    if k < 0.8:
        return " ".join(gen_scalar_value(rng) for _ in range(rng.choice([2, 3]))), "multi"
    if k < 0.9:
        return "[" + ", ".join(gen_scalar_value(rng, 1) for _ in range(rng.choice([2, 3, 5]))) + "] elem", "many"
    return "(" + ", ".join(gen_scalar_value(rng) for _ in range(2)) + ") " + gen_scalar_value(rng), "multi"


# ------------------------------------------------------------------ plan

def make_plan(rng, idx):
    if idx % 20 == 11:
        return make_dump_plan(rng, idx)
    plan = P.new_plan("C19")
    plan["knobs"] = {"cli": 1, "watchdog_s": 8}
    cli = {"opts": [], "files": [], "args": [], "argv_files_first": rng.random() < 0.3}
    for o in ("-c", "-q", "-s", "-H", "-h"):
        if rng.random() < 0.28:
            cli["opts"].append(o)
    if rng.random() < 0.1:
        cli["opts"] = [{"-c": "--count", "-q": rng.choice(["--quiet", "--silent"]), "-s": "--no-messages",
                        "-H": "--with-filename", "-h": "--no-filename"}[o] for o in cli["opts"]]

    nfiles = rng.choice([0, 0, 1, 1, 1, 2, 2, 3])
    for k in range(nfiles):
        if rng.random() < 0.68:
            cli["files"].append({"name": rng.choice(HEALTHY), "health": "ok"})
        else:
            kind, val = rng.choice(SICK)
            if kind == "hdr-eio" and k != 0:
                kind, val = "errno", errno.ENOENT
            name = "sick%d.o" % k
            if kind == "hdr-eio":
                name = rng.choice(HEALTHY)
            cli["files"].append({"name": name, "health": kind, "val": val})
    nargs = rng.choice([0, 0, 0, 1, 1, 2])
    for _ in range(nargs):
        if rng.random() < 0.4:
            if rng.random() < 0.3:
                cli["args"].append({"kind": "lit", "text": rng.choice(ARG_LIT_SPECIAL), "as_eval": False})
            else:
                lit = rng.choice(ARG_LIT)
                # -a X and --a '"X"' are the same thing
                cli["args"].append({"kind": "lit", "text": lit, "as_eval": rng.random() < 0.5})
        else:
            t, n = rng.choice(ARG_EVAL)
            if n < 0 and rng.random() < 0.6:
                t, n = rng.choice([a for a in ARG_EVAL if a[1] >= 0])
            if n >= 0 and rng.random() < 0.25:
                # several values that the header has to render in the brief form
                n = rng.choice([1, 2, 3])
                t = "(" + ", ".join(gen_scalar_value(rng) for _ in range(n)) + ")" if n > 1 else gen_scalar_value(rng)
            cli["args"].append({"kind": "eval", "text": t})

    body, klass = rng.choice(BODIES)
    if rng.random() < 0.25:
        body, klass = rng.choice([b for b in BODIES if b[1] in ("fail", "reject", "none", "multi")])
    elif rng.random() < 0.3:
        body, klass = gen_scalar_body(rng)
    argdep = None
    if rng.random() < 0.2:
        # a query that fails after one result, but only for one combination
        drops = " ".join(["drop"] * 10)
        if cli["args"] and cli["args"][-1]["kind"] == "eval" and cli["args"][-1]["text"] in ("(1, 2)", "(7, 8, 9) ?(8 ?ne)"):
            k = rng.choice([1, 2, 7, 9])
            argdep = "(10, 20) ?(20 !eq || over %d !eq || %s)" % (k, drops)
        elif nfiles >= 2 and not cli["args"]:
            f = rng.choice(cli["files"])
            argdep = "(10, 20) ?(20 !eq || over name \"%s\" !eq || %s)" % (vpath(f), drops)
    pre = ""
    if nfiles:
        pre, pk = rng.choice(DW_PREFIX)
        # arguments sit above the Dwarf value: get them out of the way first
        if cli["args"] and pk != "keep":
            n = len(cli["args"])
            if n == 1:
                pre = "swap " + pre + " swap" if pk == "scalar" else "swap drop"
            else:
                pre = "rot " + pre + " rot rot" if pk == "scalar" else "rot drop"
    elif cli["args"] and rng.random() < 0.4:
        pre = rng.choice(["drop", "\"<%s>\"", "dup"])
    cli["query"] = (pre + " " + body).strip() if rng.random() < 0.97 else None
    cli["qclass"] = klass
    if argdep is not None:
        cli["query"] = argdep
        cli["qclass"] = "fail-for-one-combination"
    cli["qmode"] = rng.choice(["e", "e", "e", "f", "f-", "pos", "expr"])
    if nfiles >= 2 and not cli["args"] and all(f["health"] == "ok" for f in cli["files"]) and rng.random() < 0.5:
        # metamorphic: what several files print is what each prints alone, one after the other
        cli["query"] = rng.choice(DWVAL_BODIES)
        cli["qclass"] = "dwarf-values"
        cli["meta_concat"] = True
        cli["opts"] = [o for o in cli["opts"] if o not in ("-q", "--quiet", "--silent", "-c", "--count")]
    plan["cli"] = cli
    derive(plan)
    cfg = "opts=%d files=%d args=%d" % (len(cli["opts"]) > 0, nfiles, nargs)
    return plan, cfg


# bodies that yield exactly one DIE per result: the CLI prints each with what
# `raw attribute` and `[value] swap label` give for it
DIE_BODIES = ["entry ?(offset 0x120 ?lt)", "entry ?root", "unit root", "entry ?root child ?(pos 12 ?lt)", "[entry ?(offset 0x100 ?lt)] elem",
              "entry ?(offset 0x100 ?lt) @AT_type", "entry ?TAG_subprogram ?(pos 10 ?lt)", "entry ?TAG_base_type", "entry ?(offset 0x90 ?lt) child",
              "entry ?TAG_variable ?(pos 10 ?lt)", "unit ?0 entry ?(pos 20 ?lt)"]
DUMP_PROBE = " raw attribute [value] swap label"


def make_dump_plan(rng, idx):
    """A file whose DIE tree is intact enough to walk but some of whose
    attribute values cannot be decoded, and a query whose results are DIEs:
    the failure happens while the CLI prints a result, not while the query
    computes it.  It is a failure of that execution all the same."""
    plan = P.new_plan("C19")
    plan["knobs"] = {"cli": 1, "watchdog_s": 8}
    cli = {"opts": [o for o in ("-s", "-H", "-h") if rng.random() < 0.2], "files": [], "args": [], "argv_files_first": rng.random() < 0.3}
    names = rng.sample(["a1.out", "twocus", "nullptr.o", "typedef.o", "enum.o", "dwz-partial2-1", "bitcount.o", "k1.o"], rng.choice([1, 1, 2]))
    for k, n in enumerate(names):
        tmp = {"files": []}
        if (k == 0 or rng.random() < 0.5) and hist.damage_a_file(rng, tmp, [n]):
            cli["files"].append({"name": n, "health": "damaged", "val": tmp["files"][0]["patches"]})
        else:
            cli["files"].append({"name": n, "health": "ok"})
    cli["query"] = rng.choice(DIE_BODIES)
    cli["qclass"] = "dies-of-a-damaged-file"
    cli["dump_probe"] = True
    cli["qmode"] = rng.choice(["e", "e", "pos", "f"])
    plan["cli"] = cli
    derive(plan)
    return plan, "dump-failure"


def make_failing_plan(rng, idx):
    """For C14: invocations whose query fails at run time in some combination."""
    if rng.random() < 0.3:
        plan, cfg = make_dump_plan(rng, idx)
        plan["profile"] = "C14"
        return plan, "cli-failure"
    for _ in range(20):
        plan, cfg = make_plan(rng, idx)
        if plan["cli"].get("qclass") in ("fail", "fail-for-one-combination") \
                or any(a["kind"] == "eval" and a["text"] in ARG_EVAL_RUNTIME_FAIL for a in plan["cli"]["args"]):
            plan["profile"] = "C14"
            return plan, "cli-failure"
    plan["profile"] = "C14"
    return plan, "cli-failure"


def vpath(f):
    return "/sim/0/" + f["name"]


def derive(plan):
    """argv / stdin / overrides from the symbolic description."""
    cli = plan["cli"]
    files = []
    io = None
    for f in cli["files"]:
        if f["health"] == "errno":
            files.append({"vpath": vpath(f), "backing": "", "errno": f["val"]})
        elif f["health"] == "backing":
            files.append({"vpath": vpath(f), "backing": os.path.join(FIX, f["val"]), "errno": 0})
        elif f["health"] == "damaged":
            files.append({"vpath": vpath(f), "backing": "", "errno": 0, "patches": [list(x) for x in f["val"]]})
        elif f["health"] == "hdr-eio":
            plan["knobs"]["deny_mmap"] = 1
            io = [[0, 1]]
    plan["files"] = files
    if not any(f["health"] == "hdr-eio" for f in cli["files"]):
        plan["knobs"].pop("deny_mmap", None)
    argv = ["dwgrep"]
    fargs = [vpath(f) for f in cli["files"]]
    steps = []
    q = cli.get("query")
    m = cli.get("qmode", "e") if q is not None else None
    files_first = cli.get("argv_files_first") and m != "pos"
    if files_first:
        argv += fargs
    argv += cli["opts"]
    if m == "e":
        argv += ["-e", q]
    elif m == "expr":
        argv += ["--expr=" + q]
    elif m == "f":
        argv += ["-f", "@QFILE@"]
        steps.append(P.step(0, "QFILE", P.hexenc(q)))
    elif m == "f-":
        argv += ["-f", "-"]
        steps.append(P.step(0, "STDIN", P.hexenc(q)))
    for a in cli["args"]:
        if a["kind"] == "lit" and not a.get("as_eval"):
            argv += ["-a", a["text"]]
        elif a["kind"] == "lit":
            argv += ["--a", '"%s"' % a["text"]]
        else:
            argv += ["--a", a["text"]]
    if m == "pos":
        # "--" protects queries that start with a dash
        argv += ["--", q] + fargs
    elif not files_first:
        argv += fargs
    steps.append(P.step(0, "ARGV", *[P.hexenc(a) for a in argv]))
    if io:
        steps.append(P.step(0, "IO", io=io))
    plan["steps"] = steps
    plan["argv"] = argv
    return plan


# ------------------------------------------------------------------ library driver

def lib_plan(plan):
    """An ordinary zsim plan that evaluates the arguments and runs the query
    once per combination, in row-major order."""
    cli = plan["cli"]
    lp = P.new_plan("C19")
    lp["files"] = P.clone(plan.get("files", []))
    lp["knobs"] = {"leakcheck": 0, "watchdog_s": 8, "deny_mmap": plan["knobs"].get("deny_mmap", 0)}
    steps = []
    meta = {"file_v": [], "arg_o": [], "combos": []}
    q = cli.get("query")
    lp["progs"].append({"text": q if q is not None else "", "mode": 1})
    steps.append(P.step(0, "PARSE", 0, 0))
    meta["i_parse"] = 0
    nv = 0
    for f in cli["files"]:
        io = [[0, 1]] if f["health"] == "hdr-eio" else None
        steps.append(P.step(0, "OPEN", nv, P.hexenc(vpath(f)), "cooked", io=io))
        meta["file_v"].append((nv, len(steps) - 1))
        nv += 1
    no = 0
    nq = 1
    nr = 0
    ni = 0
    for a in cli["args"]:
        if a["kind"] == "lit":
            meta["arg_o"].append({"lit": a["text"]})
            continue
        lp["progs"].append({"text": a["text"], "mode": 1})
        pi = len(lp["progs"]) - 1
        ent = {"parse": len(steps), "pulls": []}
        steps.append(P.step(0, "PARSE", nq, pi))
        steps.append(P.step(0, "MKIN", 100 + ni))
        steps.append(P.step(0, "EXEC", 100 + nr, nq, 100 + ni))
        for k in range(5):
            ent["pulls"].append((len(steps), no))
            steps.append(P.step(0, "PULL", 100 + nr, no))
            no += 1
        steps.append(P.step(0, "CANCEL", 100 + nr))
        nq += 1
        nr += 1
        ni += 1
        meta["arg_o"].append(ent)
    lp["steps"] = steps
    return lp, meta


def lib_results(z, plan):
    """Runs the library driver in two stages (arguments/files first, then the
    combinations they give rise to).  Returns a dict for the model, or None
    if the driver itself could not complete."""
    cli = plan["cli"]
    lp, meta = lib_plan(plan)
    r1 = z.run(lp)
    if r1.fatal_class() is not None or len(r1.events) != len(lp["steps"]):
        return None
    ev = r1.events
    res = {"compile_ok": ev[meta["i_parse"]].outcome == "ok", "noise": False, "noise_chunks": [], "noise_exact": True}
    res["compile_msg"] = ev[meta["i_parse"]].text("msg") or ""
    # which files open
    open_ok = []
    for (v, si) in meta["file_v"]:
        open_ok.append(ev[si].outcome == "ok")
    res["open_ok"] = open_ok
    # argument values
    argvals = []        # per arg: list of item tokens, or None on failure
    arg_fail = False
    for a, ent in zip(cli["args"], meta["arg_o"]):
        if "lit" in ent:
            argvals.append([("S:" + P.hexenc(ent["lit"]), ("str", ent["lit"].encode("latin-1")))])
            continue
        if ev[ent["parse"]].outcome != "ok":
            argvals.append(None)
            arg_fail = True
            continue
        vals = []
        failed = False
        for (si, o) in ent["pulls"]:
            e = ev[si]
            if e.outcome == "stack":
                if (e.text("r") or "").startswith("0<"):
                    failed = True       # "empty stack yielded"
                    break
                vals.append(("O:%d:0" % o, parse_stack(e.text("r"))[0]))
            elif e.outcome == "fail":
                failed = True
                res["arg_runtime_fail"] = e.text("msg") or "?"
                break
            elif e.outcome in ("end", "skip"):
                break
            if e.get("err"):
                res["noise"] = True
                res["noise_chunks"].append(e.text("err").encode("latin-1"))
        else:
            res["noise_exact"] = False      # the driver did not see the end of this argument's values
        if failed:
            argvals.append(None)
            arg_fail = True
        else:
            argvals.append(vals)
    res["arg_fail"] = arg_fail
    res["argvals"] = [None if v is None else len(v) for v in argvals]
    res["combos"] = []
    if arg_fail or not res["compile_ok"]:
        return res
    # second stage: the combinations
    dims = []
    if cli["files"]:
        fv = [("V:%d" % v, i) for i, ((v, si), ok) in enumerate(zip(meta["file_v"], open_ok)) if ok]
        if not fv:
            res["no_file_opened"] = True
            return res
        dims.append(fv)
    for vals in argvals:
        dims.append(vals)
    combos = [[]]
    for d in dims:
        combos = [c + [x] for c in combos for x in d]
    if len(combos) > 30:
        return None
    lp2 = P.clone(lp)
    steps = lp2["steps"]
    marks = []
    probe = cli.get("dump_probe") and cli.get("query") is not None
    if probe:
        lp2["progs"].append({"text": cli["query"] + DUMP_PROBE, "mode": 1})
        steps.append(P.step(0, "PARSE", 50, len(lp2["progs"]) - 1))
    pmarks = []
    for ci, c in enumerate(combos):
        i = 200 + ci
        steps.append(P.step(0, "MKIN", i, *[tok for (tok, _) in c]))
        steps.append(P.step(0, "EXEC", 200 + ci, 0, i))
        first = len(steps)
        for k in range(CAP):
            steps.append(P.step(0, "PULL", 200 + ci))
        steps.append(P.step(0, "CANCEL", 200 + ci))
        marks.append((first, c))
        if probe:
            steps.append(P.step(0, "EXEC", 400 + ci, 50, i))
            pmarks.append(len(steps))
            for k in range(4 * CAP):
                steps.append(P.step(0, "PULL", 400 + ci))
            steps.append(P.step(0, "CANCEL", 400 + ci))
    r2 = z.run(lp2)
    if r2.fatal_class() is not None or len(r2.events) != len(steps):
        return None
    for (first, c) in marks:
        results, error = [], None
        finished = False
        for e in r2.events[first:first + CAP]:
            if e.get("err"):
                res["noise"] = True
                res["noise_chunks"].append(e.text("err").encode("latin-1"))
            if e.outcome == "stack":
                results.append(parse_stack(e.text("r")))
            elif e.outcome == "fail":
                error = e.text("msg")
                finished = True
                break
            elif e.outcome in ("end", "skip"):
                finished = True
                break
        if not finished:
            return None         # more results than the driver pulls: not judged
        file_idx = c[0][1] if cli["files"] else None
        avs = [x[1] for x in (c[1:] if cli["files"] else c)]
        res["combos"].append({"results": results, "error": error, "file": file_idx, "argvalues": avs})
    for ci, pf in enumerate(pmarks):
        for e in r2.events[pf:pf + 4 * CAP]:
            if e.outcome == "fail":
                res["combos"][ci]["dump_error"] = e.text("msg") or "?"
                break
            if e.outcome in ("end", "skip"):
                break
    return res


# ------------------------------------------------------------------ render parser

def unesc(s):
    out = bytearray()
    i = 0
    while i < len(s):
        c = s[i]
        if c == "\\" and i + 1 < len(s):
            if s[i + 1] == "x":
                out.append(int(s[i + 2:i + 4], 16))
                i += 4
                continue
            if s[i + 1] == "\\":
                out.append(0x5c)
                i += 2
                continue
        out.append(ord(c))
        i += 1
    return bytes(out)


def parse_value(s, i):
    """Parses one rendered value at s[i:]; returns (value, next index).
    value = ("const", full, brief) | ("str", bytes) | ("seq", [values]) |
            ("dwarf", name) | ("other", text)"""
    m = re.compile(r"(T_[A-Z_?]+)@(\d+):(?:(raw|cooked):)?").match(s, i)
    if not m:
        raise ValueError("bad render at %d: %s" % (i, s[i:i + 40]))
    ty = m.group(1)
    i = m.end()
    if s.startswith("C(", i):
        j = s.index(")", i)
        f, b, v = s[i + 2:j].split("|")
        return ("const", unesc(f), unesc(b)), j + 1
    if s.startswith("S(", i):
        j = s.index(")", i)
        return ("str", unesc(s[i + 2:j])), j + 1
    if s.startswith("Q[", i):
        i += 2
        vals = []
        while s[i] != "]":
            if s[i] == ",":
                i += 1
            v, i = parse_value(s, i)
            vals.append(v)
        return ("seq", vals), i + 1
    if s.startswith("X(", i):
        j = s.index(")", i)
        body = s[i + 2:j]
        if ty == "T_DWARF":
            m2 = re.search(r"\|name=([^|]*)", body)
            return ("dwarf", unesc(m2.group(1)) if m2 else b"?"), j + 1
        return ("other", body), j + 1
    raise ValueError("bad payload at %d" % i)


def parse_stack(r):
    m = re.match(r"(\d+)<(.*)>$", r, re.S)
    n = int(m.group(1))
    body = m.group(2)
    vals = []
    i = 0
    while i < len(body):
        if body.startswith(" ; ", i):
            i += 3
            continue
        v, i = parse_value(body, i)
        vals.append(v)
    assert len(vals) == n, (n, vals)
    return vals


def charp_brief(b):
    out = bytearray(b'"')
    esc = {0: b"\\0", 0x22: b"\\", 0x5c: b"\\\\", 7: b"\\a", 8: b"\\b", 9: b"\\t", 10: b"\\n",
           11: b"\\v", 12: b"\\f", 13: b"\\r"}
    for c in b:
        if c in esc:
            out += esc[c]
        elif 0x20 <= c < 0x7f:
            out.append(c)
        else:
            out += b"\\x%2x" % c       # setw (2) with the default fill: "\\x 1"
    out += b'"'
    return bytes(out)


def show(v, full=True):
    """How the CLI prints a value (None if the model does not cover it)."""
    k = v[0]
    if k == "const":
        return v[1] if full else v[2]
    if k == "str":
        return v[1] if full else charp_brief(v[1])
    if k == "seq":
        parts = [show(e, False) for e in v[1]]
        if any(p is None for p in parts):
            return None
        return b"[" + b", ".join(parts) + b"]"
    if k == "dwarf":
        return b"<Dwarf " + charp_brief(v[1]) + b">"
    return None


# ------------------------------------------------------------------ the model

class Expect:
    def __init__(self):
        self.status = None          # set of acceptable exit statuses
        self.stdout = None          # compiled regex (bytes) or None = not judged
        self.stderr_nonempty = False
        self.stderr_empty = False
        self.stderr_mentions = []
        self.notes = []


def model(plan, lib):
    cli = plan["cli"]
    opts = set(cli["opts"])
    quiet = bool(opts & {"-q", "--quiet", "--silent"})
    nomsg = bool(opts & {"-s", "--no-messages"})
    count = bool(opts & {"-c", "--count"})
    forceH = bool(opts & {"-H", "--with-filename"})
    noH = bool(opts & {"-h", "--no-filename"})
    ex = Expect()

    if lib.get("arg_fail"):
        # an argument that does not evaluate is a failure of the invocation
        ex.status = {2}
        ex.stdout = re.compile(rb"")
        ex.stderr_nonempty = True
        return ex
    if cli.get("query") is None:
        # "No query specified." -- unless a file argument is taken as the query
        if cli["files"]:
            return None     # first file name would be parsed as a query: not modelled
        ex.status = {2}
        ex.stdout = re.compile(rb"")
        ex.stderr_nonempty = True
        return ex
    if not lib["compile_ok"]:
        ex.status = {2}
        ex.stdout = re.compile(rb"")
        ex.stderr_nonempty = not nomsg      # under -s either is accepted
        return ex

    unopenable = [f for f, ok in zip(cli["files"], lib["open_ok"]) if not ok]
    if unopenable and not nomsg:
        ex.stderr_nonempty = True
        ex.stderr_mentions = [vpath(f).encode() for f in unopenable]

    combos = lib["combos"]
    if lib.get("no_file_opened"):
        combos = []
    any_result = any(c["results"] for c in combos)
    seen = combos
    if quiet and any_result:
        # -q leaves at the first result: later combinations are never run
        first = next(i for i, c in enumerate(combos) if c["results"])
        seen = combos[:first]
    any_error = any(c["error"] is not None for c in seen)
    if any_error and not nomsg:
        ex.stderr_nonempty = True

    if quiet:
        ex.status = {0} if any_result else {1, 2}
        ex.stdout = re.compile(rb"")
    else:
        ex.status = {2} if any_error else ({0} if any_result else {1})
        # header
        iterations = len(combos)
        with_header = (forceH or iterations > 1) and not noH
        opened = [f for f, ok in zip(cli["files"], lib["open_ok"]) if ok]
        multi = any((n or 0) > 1 for n in lib["argvals"])
        pat = b""
        for c in combos:
            if with_header:
                # first the file (if files were given), then every argument
                # that has more than one value, comma-separated
                comps = []
                if cli["files"]:
                    comps.append(re.escape(vpath(cli["files"][c["file"]]).encode()))
                for n, av in zip(lib["argvals"], c["argvalues"]):
                    if (n or 0) > 1:
                        sv = show(av, False)
                        comps.append(re.escape(sv) if sv is not None else rb"[^\n]*")
                h = rb", ?".join(comps) if comps else re.escape(b"<no-file>")
            if count:
                line = (h + b":" if with_header else b"") + str(len(c["results"])).encode() + rb"\n"
                if c["error"] is not None:
                    # the statement does not say whether a failed combination
                    # gets a count line; the code prints none
                    pat += b"(?:" + line + b")?"
                else:
                    pat += line
                continue
            for st in c["results"]:
                if with_header:
                    pat += h + rb":\n"
                if len(st) > 1:
                    pat += rb"---\n"
                for v in st:
                    s = show(v, True)
                    if s is None:
                        pat += rb"[^\n]*(?:\n\t[^\n]*)*\n"     # not modelled: one record
                    else:
                        pat += re.escape(s) + rb"\n"
        ex.stdout = re.compile(pat, re.S)

    # Values whose rendering the model does not cover (DIEs, attributes, ...)
    # are printed by the CLI's dumper, which runs queries of its own on them
    # and can fail where the plain execution did not (a DIE of a damaged sample
    # file): then that execution counts as failed.  The model cannot know, so
    # it steps back: any status the two readings allow, stdout not matched.
    unmodelled = any(show(v, True) is None for c in combos for st in c["results"] for v in st)
    ex.base_status = set(ex.status)
    if not quiet and lib.get("noise_chunks") is not None:
        # what libzwerg writes to stderr by itself (division by zero, ...) is
        # not the driver's to silence: it is there with or without -s
        ex.lib_noise = list(lib["noise_chunks"])
        ex.lib_noise_exact = nomsg and lib.get("noise_exact", False) and not unmodelled
    if unmodelled and not count:
        if not quiet:
            ex.status = set(ex.status) | {2}
        ex.unmodelled = True
    if not ex.stderr_nonempty and not lib["noise"] and not getattr(ex, "unmodelled", False):
        ex.stderr_empty = True
    if nomsg and not lib["noise"] and not getattr(ex, "unmodelled", False):
        # with -s the driver's own messages are silenced
        ex.stderr_empty = True
        ex.stderr_nonempty = False
    elif nomsg:
        ex.stderr_nonempty = False
    return ex


def judge(plan, lib, resp):
    """Returns None or (klass, detail)."""
    if resp.cli is None:
        return None
    ex = model(plan, lib)
    if ex is None:
        return None
    got = resp.cli
    out, err, st = got["out"], got["err"], got["status"]
    argv = " ".join(repr(a) for a in plan.get("argv", []))
    if st not in ex.status:
        return ("cli:exit-status", "%s\nexit status %d, expected %s\nstdout=%r\nstderr=%r"
                % (argv, st, sorted(ex.status), out[:400], err[:400]))
    opts_ = set(plan["cli"]["opts"])
    if not (opts_ & {"-q", "--quiet", "--silent", "-c", "--count"}):
        de = [c_["dump_error"] for c_ in lib.get("combos", []) if c_.get("dump_error")]
        if de and st != 2:
            return ("cli:dump-failure-exit-status", "%s\nprinting a result fails (%s: what `raw attribute [value] swap label` gives for a yielded DIE) but the exit status is %d, not 2\nstderr=%r"
                    % (argv, de[0], st, err[:300]))
        if de and not err and not (opts_ & {"-s", "--no-messages"}):
            return ("cli:dump-failure-stderr", "%s\nprinting a result fails (%s) but nothing is written to stderr" % (argv, de[0]))
    dumper_failed = getattr(ex, "unmodelled", False) and st == 2
    if ex.stdout is not None and not dumper_failed and not ex.stdout.fullmatch(out):
        k = "cli:stdout-under-q" if ex.stdout.pattern == b"" and any(
            o in ("-q", "--quiet", "--silent") for o in plan["cli"]["opts"]) else "cli:stdout"
        return (k, "%s\nstdout %r\ndoes not match %r\nstderr=%r" % (argv, out[:600], ex.stdout.pattern[:600], err[:300]))
    if getattr(ex, "unmodelled", False) and st == 2 and not err and not any(
            o in ("-s", "--no-messages") for o in plan["cli"]["opts"]):
        return ("cli:stderr-missing", "%s\nexit status 2 without a diagnostic on stderr" % argv)
    if ex.stderr_nonempty and not err:
        return ("cli:stderr-missing", "%s\nexpected a diagnostic on stderr, got none (status %d)" % (argv, st))
    if ex.stderr_empty and err:
        return ("cli:stderr-unexpected", "%s\nexpected nothing on stderr, got %r" % (argv, err[:400]))
    noise = getattr(ex, "lib_noise", None)
    if noise:
        at = 0
        for ch in noise:
            k = err.find(ch, at)
            if k < 0:
                return ("cli:library-message-lost", "%s\nlibzwerg's own message %r is not on stderr (or not in order): %r" % (argv, ch[:200], err[:400]))
            at = k + len(ch)
    if noise is not None and getattr(ex, "lib_noise_exact", False) and err != b"".join(noise):
        return ("cli:stderr-under-s", "%s\nunder -s stderr should hold libzwerg's own messages only: %r, got %r" % (argv, b"".join(noise)[:300], err[:400]))
    for m in ex.stderr_mentions:
        if m not in err:
            return ("cli:stderr-file-not-named", "%s\nstderr %r does not mention %r" % (argv, err[:400], m))
    return None


# ------------------------------------------------------------------ simulate / gate / minimise

class CliStats(O.RunStats):
    pass


def judge_failure_clause(plan, lib, resp):
    """C14's CLI clause only: a run-time failure of a well-formed query gives
    a message on stderr and exit status 2."""
    if resp.cli is None or plan["cli"].get("query") is None:
        return None
    opts = set(plan["cli"]["opts"])
    quiet = bool(opts & {"-q", "--quiet", "--silent"})
    nomsg = bool(opts & {"-s", "--no-messages"})
    if lib.get("arg_runtime_fail") and lib.get("compile_ok"):
        # an --a expression is a well-formed query too: its run-time failure, at
        # whatever pull, is a failure of the invocation
        argv = " ".join(repr(a) for a in plan.get("argv", []))
        if resp.cli["status"] != 2:
            return ("cli-runtime-failure:exit-status", "%s\nan --a expression fails at run time (%s) but the exit status is %d, not 2\nstdout=%r\nstderr=%r"
                    % (argv, lib["arg_runtime_fail"], resp.cli["status"], resp.cli["out"][:200], resp.cli["err"][:300]))
        if not resp.cli["err"]:
            return ("cli-runtime-failure:stderr", "%s\nan --a expression fails at run time but nothing is written to stderr" % argv)
        return None
    if lib.get("arg_fail") or not lib.get("compile_ok"):
        return None
    if not quiet and not (opts & {"-c", "--count"}):
        de = [c_["dump_error"] for c_ in ([] if lib.get("no_file_opened") else lib["combos"]) if c_.get("dump_error")]
        argv = " ".join(repr(a) for a in plan.get("argv", []))
        if de and resp.cli["status"] != 2:
            return ("cli-runtime-failure:exit-status", "%s\nprinting a result fails at run time (%s) but the exit status is %d, not 2\nstderr=%r"
                    % (argv, de[0], resp.cli["status"], resp.cli["err"][:300]))
        if de and not nomsg and not resp.cli["err"]:
            return ("cli-runtime-failure:stderr", "%s\nprinting a result fails at run time but nothing is written to stderr" % argv)
    combos = [] if lib.get("no_file_opened") else lib["combos"]
    if quiet or not any(c["error"] is not None for c in combos):
        return None
    argv = " ".join(repr(a) for a in plan.get("argv", []))
    if resp.cli["status"] != 2:
        return ("cli-runtime-failure:exit-status", "%s\nan execution fails at run time (%s) but the exit status is %d, not 2\nstderr=%r"
                % (argv, [c["error"] for c in combos if c["error"]][0], resp.cli["status"], resp.cli["err"][:300]))
    if not nomsg and not resp.cli["err"]:
        return ("cli-runtime-failure:stderr", "%s\nan execution fails at run time but nothing is written to stderr" % argv)
    return None


def judge_concat(z, plan, resp):
    """Several files and no other arguments: stdout is what the files give one
    by one (with -H, so that the header is there in both), concatenated."""
    cli = plan["cli"]
    if len(cli["files"]) < 2 or cli["args"]:
        return None
    noh = any(o in ("-h", "--no-filename") for o in cli["opts"])
    cat = b""
    for f in cli["files"]:
        p1 = P.clone(plan)
        p1["cli"]["files"] = [dict(f)]
        p1["cli"]["meta_concat"] = False
        if not noh and not any(o in ("-H", "--with-filename") for o in p1["cli"]["opts"]):
            p1["cli"]["opts"] = p1["cli"]["opts"] + ["-H"]
        derive(p1)
        r1 = z.run(p1)
        if r1.cli is None:
            return None
        cat += r1.cli["out"]
    if cat != resp.cli["out"]:
        argv = " ".join(repr(a) for a in plan.get("argv", []))
        # first difference
        n = next((i for i in range(min(len(cat), len(resp.cli["out"]))) if cat[i] != resp.cli["out"][i]), min(len(cat), len(resp.cli["out"])))
        return ("cli:several-files-differ-from-one-by-one",
                "%s\nstdout differs from the concatenation of the single-file runs at byte %d:\n together: %r\n one by one: %r"
                % (argv, n, resp.cli["out"][max(0, n - 60):n + 60], cat[max(0, n - 60):n + 60]))
    return None


def simulate(z, plan, clause_only=False):
    derive(plan)
    out = E.Outcome()
    resp = z.run(plan)
    out.resp = resp
    st = CliStats()
    out.stats = st
    cli = plan["cli"]
    st.steps = 1
    st.interleave_sig = "-"
    sig = (tuple(sorted(cli["opts"])), cli.get("qclass"), cli.get("qmode"),
           tuple(f["health"] + str(f.get("val")) for f in cli["files"]),
           tuple((a["kind"], a["text"]) for a in cli["args"]))
    st.cli_sig = P.digest(repr(sig))
    cl = E.classify(resp, None)
    if cl is not None and E.elfutils_crash_on_damaged_file(plan, resp, cl):
        # a fault inside libdw/libelf on a damaged file in a straight-line run
        # of the CLI: elfutils' robustness, not dwgrep's (DESIGN.md 10a)
        out.discarded = "crash-inside-elfutils-on-damaged-file"
        out.fp = E.fingerprint(resp, "")
        return out
    if cl is not None:
        orc, klass, det = cl
        if orc == "leak":
            keep, ignored, log = E.attribute_leak(z, plan, resp)
            if not keep and ignored:
                cl = None
        if cl is not None:
            v = O.Violation(orc, det, plan)
            v.klass_str = klass
            if orc in E.CRASH or orc in ("contract",) or (clause_only == "memory" and orc in ("leak", "fd-leak", "fd-discipline")):
                out.violation = v
            else:
                out.other = v
    if clause_only == "memory":
        st.probe("cli_run")
        out.fp = E.fingerprint(resp, out.violation.klass_str if out.violation else "")
        return out
    lib = lib_results(z, plan)
    out.baseline_runs = 2
    if lib is None:
        out.discarded = "library-driver-incomplete"
        out.fp = E.fingerprint(resp, out.violation.klass_str if out.violation else "")
        return out
    st.probe("query_class_" + str(cli.get("qclass")))
    if any(not ok for ok in lib.get("open_ok", [])):
        st.probe("unopenable_file")
        st.opens_fail += 1
    if lib.get("arg_fail"):
        st.probe("argument_fails_to_evaluate")
    if any(c["error"] for c in lib["combos"]):
        st.probe("execution_fails")
        st.failed_pulls += 1
    if len(lib["combos"]) > 1:
        st.probe("several_combinations")
    if any((n == 0) for n in lib.get("argvals", [])):
        st.probe("argument_yields_nothing")
    if out.violation is None and resp.cli is not None and cli.get("meta_concat") and not clause_only:
        j = judge_concat(z, plan, resp)
        if j is not None:
            v = O.Violation("cli", j[1], plan)
            v.klass_str = j[0]
            out.violation = v
    if out.violation is None and resp.cli is not None:
        j = judge_failure_clause(plan, lib, resp) if clause_only else judge(plan, lib, resp)
        if j is not None:
            v = O.Violation("cli", j[1], plan)
            v.klass_str = j[0]
            out.violation = v
    out.fp = E.fingerprint(resp, out.violation.klass_str if out.violation else "")
    return out


def gate(z, plan, klass, fp, clause_only=False):
    for i in range(2):
        o = simulate(z, P.clone(plan), clause_only)
        if o.violation is None:
            return False, "re-run %d did not violate" % i
        if o.violation.klass_str != klass:
            return False, "re-run %d class %s != %s" % (i, o.violation.klass_str, klass)
        if o.fp != fp:
            return False, "re-run %d fingerprint differs" % i
    return True, ""


def minimise(z, plan, klass, max_runs=150, clause_only=False):
    best = P.clone(plan)
    used = [0]

    def still(cand):
        if used[0] >= max_runs:
            return False
        used[0] += 1
        o = simulate(z, cand, clause_only)
        return o.violation is not None and o.violation.klass_str == klass

    def attempt(mut):
        nonlocal best
        cand = P.clone(best)
        try:
            mut(cand["cli"])
        except (IndexError, KeyError):
            return
        if cand["cli"] == best["cli"]:
            return
        if still(cand):
            best = cand

    for i in range(len(best["cli"]["opts"]) - 1, -1, -1):
        attempt(lambda c, i=i: c["opts"].pop(i))
    for i in range(len(best["cli"]["args"]) - 1, -1, -1):
        attempt(lambda c, i=i: c["args"].pop(i))
    for i in range(len(best["cli"]["files"]) - 1, -1, -1):
        attempt(lambda c, i=i: c["files"].pop(i))
    attempt(lambda c: c.update(qmode="e"))
    attempt(lambda c: c.update(argv_files_first=False))
    for f in range(len(best["cli"]["files"])):
        attempt(lambda c, f=f: c["files"][f].update(name="a1.out") if c["files"][f]["health"] == "ok" else None)
    # shrink the query by whole words
    q = best["cli"].get("query") or ""
    toks = q.split(" ")
    i = 0
    while i < len(toks) and used[0] < max_runs:
        nt = toks[:i] + toks[i + 1:]
        cand = P.clone(best)
        cand["cli"]["query"] = " ".join(nt)
        if still(cand):
            best = cand
            toks = nt
        else:
            i += 1
    return best, used[0]
