"""Workload generators: Zwerg programs (grammar-directed, loosely typed),
hostile byte strings, input stacks, and per-profile histories.

Everything here draws from one random.Random that the caller seeds from
(VERIF_SEED, run index); nothing else in the system is random."""
import os
import re

from . import plan as P

REPO = os.environ.get("VERIF_REPO", "/repo")

# Sample binaries (relative to the tests directory) and what they are good for.
DW_FILES = ["a1.out", "twocus", "nullptr.o", "bitcount.o", "y.o", "y-mips.o",
            "dwz-partial", "dwz-partial2-1", "dwz-partial3-1", "typedef.o",
            "enum.o", "nontrivial-types.o", "empty", "haschildren_childless",
            "testfile_const_type", "aranges.o", "defaulted.o", "char_16_32.o",
            "const_value_block.o", "duplicate-const", "inconsistent-types",
            "dwz-partial4-1.o", "imported-AT_decl_file.o", "float_const_value.o",
            "pointer_const_value.o", "attribute-die-cooked-no-dup.o",
            # compiled for this framework (gcc 12, -gdwarf-4; sources in fixtures/elf/src): shapes that
            # the repo's samples lack -- const_value of unnamed aggregates, bit fields, location lists
            # and ranges of optimised code, inlined subroutines, templates, member pointers, macros
            "k1.o", "k2.o", "k1-g3.o",
            # ar archives (several Dwfl modules behind one handle): three members with DWARF; one with, one without
            "three.a", "two.a",
            # assembled by a seeding sub-agent (source alongside): location lists with base address selection entries
            "loclists.o"]
# Files that carry a .gnu_debugaltlink (alt file name in the same directory).
ALT_OF = {"a1.out": "a-common.out", "dwz-partial2-1": "dwz-partial2-C",
          "dwz-partial3-1": "dwz-partial3-C", "dwz-partial4-1.o": "dwz-partial4-C"}

TAGS = ["subprogram", "variable", "base_type", "compile_unit", "formal_parameter",
        "typedef", "pointer_type", "structure_type", "member", "partial_unit",
        "imported_unit", "enumerator", "lexical_block"]
ATS = ["name", "type", "decl_line", "decl_file", "byte_size", "low_pc", "high_pc",
       "location", "external", "encoding", "const_value", "sibling", "language",
       "producer", "declaration", "import", "stmt_list"]


# ----------------------------------------------------------------- corpus

_corpus_cache = None


def corpus():
    """Query strings of tests/tests.sh with their sample file, parsed from the
    working tree.  Only forms that are safe for the C12 oracle are kept (no
    order comparison: DIE/abbrev/CU ordering is by heap address, which is
    consistent within a process but not between two processes)."""
    global _corpus_cache
    if _corpus_cache is not None:
        return _corpus_cache
    out = []
    path = os.path.join(REPO, "tests", "tests.sh")
    try:
        text = open(path, encoding="latin-1").read()
    except OSError:
        text = ""
    # join continuation lines
    text = text.replace("\\\n", " ")
    pat = re.compile(r"^expect_(?:count|out)\s+(?:\S+|'[^']*')\s+(.*)$", re.M)
    for m in pat.finditer(text):
        rest = m.group(1)
        q = re.search(r"-e\s+'((?:[^'])*)'", rest)
        if not q:
            continue
        query = q.group(1)
        before = rest[:q.start()]
        after = rest[q.end():]
        files = [w for w in (before + " " + after).split()
                 if not w.startswith("-") and ("." in w or w.isalnum() or "-" in w) and "'" not in w and '"' not in w]
        files = [os.path.basename(f) for f in files if os.path.exists(os.path.join(REPO, "tests", os.path.basename(f)))]
        if len(files) > 1:
            continue
        if re.search(r"\?lt|\?gt|\?le|\?ge|!lt|!gt|!le|!ge|[^=!<>~-][<>]=?[^=]|\\dbg|dwopen|--a|\$", query):
            continue
        if "-c" in rest.split() or "--a" in rest or " -a " in rest:
            pass
        out.append((query, files[0] if files else None))
    # de-duplicate, keep order
    seen = set()
    res = []
    for q, f in out:
        if (q, f) not in seen and len(q) < 200:
            seen.add((q, f))
            res.append((q, f))
    _corpus_cache = res
    return res


# ----------------------------------------------------------------- programs

class G:
    """One program generation context."""

    def __init__(self, rng, dwarf=False, bombs=True, ticks=True, max_depth=3):
        self.r = rng
        self.dwarf = dwarf
        self.bombs = bombs
        self.ticks = ticks
        self.max_depth = max_depth
        self.nname = 0
        self.budget = rng.randint(6, 26)
        self.names = []     # (name, type) visible bindings (flat; scoping approximated)
        self.has_bomb = False
        self.has_closure = False

    def fresh(self):
        self.nname += 1
        return "%s%d" % (self.r.choice("ABVXYZ"), self.nname)

    # -------- leaves
    def int_lit(self):
        r = self.r
        k = r.random()
        v = r.choice([0, 1, 2, 3, 5, 7, 10, 16, 255, 1000, 65536, 2**31, 2**63 - 1, 2**64 - 1]) \
            if k < 0.5 else r.randint(0, 40)
        f = r.random()
        if f < 0.6:
            s = str(v)
        elif f < 0.75:
            s = hex(v)
        elif f < 0.85:
            s = "0%o" % v if v else "0"
        elif f < 0.92:
            s = bin(v)
        else:
            s = "0o%o" % v
        if r.random() < 0.1 and v < 2**63:
            s = "-" + s
        k2 = r.random()
        if k2 < 0.02:
            return "-9223372036854775808"
        if k2 < 0.03:
            return "-0x8000000000000000"
        return s

    def small_int(self):
        return str(self.r.randint(0, 6))

    def str_lit(self):
        r = self.r
        words = ["", "a", "foo", "bar", "abc", "main", "int", "x y", "%%", "\\n", "\\t",
                 "\\x41", "\\101", "q\\\"q", "zzz", "foo.c", "a.*", "^f", "o$", "[a-c]+", "(", "[a", "*", "a{2", "\\\\"]
        s = r.choice(words)
        if r.random() < 0.2:
            s += r.choice(words)
        if r.random() < 0.08:
            return 'r"%s"' % s.replace('\\"', "")
        if r.random() < 0.05:
            return '"%s"\\ "%s"' % (s, r.choice(words))
        return '"%s"' % s

    def const_word(self):
        return self.r.choice(["true", "false", "DW_TAG_subprogram", "DW_AT_name", "T_CONST",
                              "T_STR", "T_SEQ", "DW_FORM_strp", "DW_LANG_C89", "DW_ATE_signed",
                              "DW_TAG_base_type", "T_DIE", "DW_OP_addr"])

    def ws(self):
        r = self.r.random()
        if r < 0.9:
            return " "
        if r < 0.94:
            return "  "
        if r < 0.96:
            return "\n"
        if r < 0.98:
            return " /* c */ "
        return " # c\n"

    def join(self, parts):
        out = ""
        for p in parts:
            if not p:
                continue
            if out:
                out += self.ws()
            out += p
        return out

    # -------- push: expression with net effect +1, returns (text, type)
    def push(self, stack, depth):
        r = self.r
        self.budget -= 1
        choices = ["int"] * 5 + ["str"] * 3 + ["const"] + ["seq"] * 2
        if self.names:
            choices += ["name"] * 3
        if stack:
            choices += ["dupx"] * 2
        if depth < self.max_depth and self.budget > 3:
            choices += ["alt"] * 2 + ["or", "if", "fmt", "cap", "block"]
        k = r.choice(choices)
        if k == "int":
            return self.int_lit(), "I"
        if k == "str":
            return self.str_lit(), "S"
        if k == "const":
            return self.const_word(), "I"
        if k == "seq":
            return self.seq_lit(stack, depth)
        if k == "name":
            n, t = r.choice(self.names)
            return n, t
        if k == "dupx":
            t = stack[-1]
            if t == "I":
                return self.join(["dup", self.small_int(), r.choice(["add", "sub", "mul"])]), "I"
            if t == "S":
                return self.join(["dup", self.str_lit(), "add"]), "S"
            if t in ("Q", "QS"):
                return self.join(["dup", "length"]), "I"
            return "dup", t
        if k == "alt":
            n = r.randint(2, 4)
            t = r.choice(["I", "I", "S"])
            parts = [self.leaf(t) for _ in range(n)]
            return "(" + ", ".join(parts) + ")", t
        if k == "or":
            t = r.choice(["I", "S"])
            if r.random() < 0.5:
                a = self.join([self.assertion_false_or_true(), self.leaf(t)])
                return "(" + a + " || " + self.leaf(t) + ")", t
            # branches that yield several times each: the branch being drained
            # is state of the execution, not of the query
            def many():
                k = r.random()
                n = r.randint(2, 4)
                if k < 0.4:
                    return "(" + ", ".join(self.leaf(t) for _ in range(n)) + ")"
                if k < 0.7:
                    return "[" + ", ".join(self.leaf(t) for _ in range(n)) + "] elem"
                if k < 0.85:
                    return self.join([self.assertion_false_or_true(), "(" + ", ".join(self.leaf(t) for _ in range(n)) + ")"])
                return self.leaf(t)
            return "(" + " || ".join(many() for _ in range(r.randint(2, 3))) + ")", t
        if k == "if":
            t = r.choice(["I", "S"])
            c = self.cond(stack, depth + 1)
            return "if %s then %s else %s" % (c, self.leaf(t), self.leaf(t)), t
        if k == "fmt":
            return self.fmt(stack, depth + 1, consume=False), "S"
        if k == "cap":
            inner, t = self.push(stack, depth + 1)
            if r.random() < 0.4:
                inner2, _ = self.push(stack, depth + 1)
                inner = "(" + inner + ", " + inner2 + ")" if "," not in inner and "?" not in inner else inner
            return "[" + inner + "]", ("Q" if t == "I" else "QS" if t == "S" else "QX")
        if k == "block":
            # a closure that pushes a value, applied on the spot -- or left on
            # the stack as a value that can travel into another execution
            inner, t = self.push(stack, depth + 1)
            self.has_closure = True
            if r.random() < 0.25:
                return "{" + inner + "}", "B"
            return "{" + inner + "} apply", t
        return self.int_lit(), "I"

    def leaf(self, t):
        if t == "I":
            return self.int_lit() if self.r.random() < 0.85 else self.const_word()
        if t == "S":
            return self.str_lit()
        return "[]"

    def seq_lit(self, stack, depth):
        r = self.r
        n = r.randint(0, 4)
        if n == 0:
            return "[]", "Q"
        t = r.choice(["I", "I", "S", "N"])
        if t == "N":
            parts = ["[" + ", ".join(self.leaf("I") for _ in range(r.randint(0, 3))) + "]"
                     for _ in range(n)]
            return "[" + ", ".join(parts) + "]", "QQ"
        parts = [self.leaf(t) for _ in range(n)]
        return "[" + ", ".join(parts) + "]", ("Q" if t == "I" else "QS")

    def assertion_false_or_true(self):
        r = self.r
        a, b = r.randint(0, 3), r.randint(0, 3)
        return r.choice(["?(%d %d ?eq)" % (a, b), "!(%d %d ?eq)" % (a, b),
                         "(%d == %d)" % (a, b), "(%d != %d)" % (a, b),
                         "?(%d %d ?lt)" % (a, b), "(%d < %d)" % (a, b)])

    def cond(self, stack, depth):
        r = self.r
        if self.bombs and not self.has_bomb and stack and r.random() < 0.05:
            return self.bomb()
        if stack and stack[-1] == "I" and r.random() < 0.5:
            return r.choice(["?(%s ?lt)" % self.small_int(), "(== %s)" % self.small_int(),
                             "?(%s ?gt)" % self.small_int(), "!(%s ?eq)" % self.small_int(),
                             "(dup 2 mod == 0)"])
        if stack and stack[-1] in ("Q", "QS", "S") and r.random() < 0.5:
            return r.choice(["?empty", "!empty", "?(length 2 ?lt)", "(length == 0)"])
        return self.assertion_false_or_true()

    def fmt(self, stack, depth, consume):
        r = self.r
        parts = []
        pops = 0
        for _ in range(r.randint(1, 3)):
            parts.append(r.choice(["", "a", "x=", " ", "<", ">", "%%", ":"]))
            k = r.random()
            if k < 0.35 and consume and pops < len(stack):
                t = stack[-1 - pops]
                pops += 1
                parts.append("%s" if t != "I" or r.random() < 0.5 else r.choice(["%d", "%x", "%o", "%b"]))
            elif k < 0.8:
                inner, t = self.push(stack[:len(stack) - pops], depth + 1)
                if '"' in inner and r.random() < 0.7:
                    inner = self.int_lit()
                parts.append("%( " + inner + " %)")
        parts.append(r.choice(["", "!", "z"]))
        self._fmt_pops = pops
        return '"' + "".join(parts) + '"'

    def bomb(self, k=None):
        """A guarded stack underflow: fires on the item whose position is K."""
        if k is None:
            k = self.r.randint(0, 4)
        self.has_bomb = True
        if self.r.random() < 0.5:
            # by value: works on the items of an ALT-list, whose positions are all 0
            return "?(dup %d !eq || %s)" % (self.r.choice([1, 2, 3, 5, 7, 10, 16]), " ".join(["drop"] * 14))
        return "?(pos %d !eq || %s)" % (k, " ".join(["drop"] * 14))

    # -------- statements: returns (text, newstack)
    def stmt(self, stack, depth):
        r = self.r
        self.budget -= 1
        top = stack[-1] if stack else None
        ch = ["push"] * 6
        if len(stack) >= 1:
            ch += ["unary"] * 4 + ["shuf1"] * 2 + ["assert1"] * 2 + ["fmt"] + ["let"]
            if top == "S":
                ch += ["strrel"] * 3
        if len(stack) >= 2:
            ch += ["binary"] * 4 + ["shuf2"] * 3 + ["assert2"] * 2 + ["scope"]
        if len(stack) >= 3:
            ch += ["rot"]
        if depth < self.max_depth and self.budget > 2:
            ch += ["subx", "cap", "infix"] * 2 + ["closure"] * 2 + ["if", "block", "opt", "numword"]
            if self.ticks and len(stack) >= 1:
                ch += ["tick"] * 2
        if self.bombs and not self.has_bomb and stack and r.random() < 0.12:
            ch += ["bomb"] * 6
        if self.dwarf and top in ("D", "E", "A", "U", "Y", "AB"):
            ch += ["dw"] * 14
        k = r.choice(ch)

        if k == "push":
            t, ty = self.push(stack, depth)
            return t, stack + [ty]
        if k == "unary":
            return self.unary(stack)
        if k == "shuf1":
            w = r.choice(["dup", "drop", "dup"])
            return (w, stack + [top]) if w == "dup" else (w, stack[:-1])
        if k == "shuf2":
            w = r.choice(["swap", "over", "drop"])
            if w == "swap":
                return w, stack[:-2] + [stack[-1], stack[-2]]
            if w == "over":
                return w, stack + [stack[-2]]
            return w, stack[:-1]
        if k == "rot":
            return "rot", stack[:-3] + [stack[-2], stack[-1], stack[-3]]
        if k == "binary":
            return self.binary(stack)
        if k == "assert1":
            if top in ("S", "Q", "QS", "QQ", "QX"):
                return r.choice(["?empty", "!empty"]), stack
            if top == "I":
                return r.choice(["?(%s ?ne)" % self.small_int(), "(!= %s)" % self.small_int(),
                                 "(< %s)" % self.int_lit(), "(>= 0)"]), stack
            return "?(type T_CONST !eq)", stack
        if k == "assert2":
            a, b = stack[-2], stack[-1]
            if a == "S" and b == "S" and r.random() < 0.5:
                return r.choice(["?find", "?starts", "?ends", "!find", "!starts", "!ends", "?match", "!match"]), stack
            if a == b and a in ("I", "S"):
                return r.choice(["?eq", "!eq", "?ne", "?lt", "?gt", "?le", "?ge", "!lt"]), stack
            if a == b:
                return r.choice(["?eq", "!eq", "?ne"]), stack
            if a == "S" and b == "S":
                return r.choice(["?find", "?starts", "?ends", "!find", "?match", "!match"]), stack
            return r.choice(["?eq", "!eq"]), stack
        if k == "strrel":
            # a string next to one made from it (longer, shorter, equal): the
            # boundary cases of the string predicates
            lit = self.str_lit() if r.random() < 0.7 else r.choice(['"\\x00"', '"\\x00ab"', '"a"'])
            if lit.startswith("r") or "\\ " in lit:
                lit = '"ab"'
            form = r.choice(["dup %s swap add" % lit, "dup %s add" % lit, "dup", "dup dup add",
                             "dup %s swap add %s add" % (lit, lit), lit,
                             "dup %s swap add" % lit])
            pred = r.choice(["?ends", "!ends", "?starts", "!starts", "?find", "!find", "?eq", "?match", "!match"])
            return self.join([form, "swap" if r.random() < 0.4 else "", pred]), stack + ["S"]
        if k == "numword":
            return r.choice(["?0", "!0", "?1", "!1", "?2", "!2", "?3"]), stack
        if k == "fmt":
            t = self.fmt(stack, depth + 1, consume=True)
            return t, stack[:len(stack) - self._fmt_pops] + ["S"]
        if k == "let":
            n = self.fresh()
            lk = r.random()
            if lk < 0.2:
                # two names bound at once
                n2 = self.fresh()
                t1, ty1 = self.push(stack, depth + 1)
                t2, ty2 = self.push(stack + [ty1], depth + 1)
                self.names += [(n, ty1), (n2, ty2)]
                return "let %s %s := %s %s;" % (n, n2, t1, t2), stack
            if lk < 0.3 and stack:
                # names bound straight from what is on the stack; with fewer
                # slots than names this fails at run time, half-way through
                n2 = self.fresh()
                self.names += [(n, stack[-1]), (n2, stack[-1])]
                return "let %s %s := ;" % (n, n2), stack
            t, ty = self.push(stack, depth + 1)
            self.names.append((n, ty))
            return "let %s := %s;" % (n, t), stack
        if k == "scope":
            a, b = self.fresh(), self.fresh()
            saved = list(self.names)
            self.names += [(a, stack[-2]), (b, stack[-1])]
            body, ns = self.seq(stack[:-2], depth + 1, r.randint(1, 3))
            self.names = saved
            return "(|%s %s| %s)" % (a, b, body), ns
        if k == "subx":
            body, _ = self.seq(stack, depth + 1, r.randint(1, 3))
            return r.choice(["?(", "!(", "?("]) + body + ")", stack
        if k == "cap":
            body, ns = self.seq(stack, depth + 1, r.randint(1, 3))
            et = ns[-1] if ns else "X"
            return "[" + body + "]", stack + ["Q" if et == "I" else "QS" if et == "S" else "QX"]
        if k == "infix":
            a, ta = self.push(stack, depth + 1)
            b, tb = self.push(stack, depth + 1)
            if ta == tb and ta in ("I", "S"):
                op = r.choice(["==", "!=", "<", ">", "<=", ">="])
            elif ta == "S" and tb == "S":
                op = r.choice(["=~", "!~", "=="])
            else:
                op = r.choice(["==", "!="])
            if r.random() < 0.3 and stack:
                return "(%s %s)" % (op, b), stack
            return "(%s %s %s)" % (a, op, b), stack
        if k == "closure":
            return self.closure(stack, depth)
        if k == "if":
            c = self.cond(stack, depth + 1)
            if r.random() < 0.5:
                a, ty = self.push(stack, depth + 1)
                b = self.leaf(ty) if ty in ("I", "S") else "[]"
                return "if %s then %s else %s" % (c, a, b), stack + [ty]
            a, _ = self.neutral(stack, depth + 1)
            b, _ = self.neutral(stack, depth + 1)
            return "if %s then %s else %s" % (c, a, b), stack
        if k == "block":
            self.has_closure = True
            n = self.fresh()
            if stack and r.random() < 0.5:
                a = self.fresh()
                saved = list(self.names)
                self.names.append((a, stack[-1]))
                body, ns = self.seq([], depth + 1, r.randint(1, 2))
                self.names = saved
                # closure pops its argument when applied
                self.names.append((n, "B"))
                return "let %s := {|%s| %s %s};" % (n, a, a, body), stack
            body, ty = self.push(stack, depth + 1)
            self.names.append((n, ty))
            return "let %s := {%s};" % (n, body), stack
        if k == "opt":
            if r.random() < 0.25:
                # a binding made under ? (or a closure), and a read after it:
                # either this is rejected, or the name must be bound on every path
                n = self.fresh()
                t, ty = self.push(stack, depth + 1)
                self.names.append((n, ty))
                return "(let %s := %s;)%s" % (n, t, r.choice(["?", "?", "*", "+"])), stack
            a, _ = self.neutral(stack, depth + 1)
            return "%s?" % self.paren(a), stack
        if k == "tick":
            n = min(len(stack), r.randint(1, 3))
            inner, ty = self.push(stack, depth + 1)
            return "`" * n + "[" + inner + "]", stack[:len(stack) - n] + ["QX"]
        if k == "bomb":
            return self.bomb(), stack
        if k == "dw":
            return self.dw(stack, depth)
        return "", stack

    def paren(self, t):
        if re.fullmatch(r"[A-Za-z_@?!][A-Za-z0-9_]*", t) or (t.startswith("(") and t.endswith(")") and t.count("(") == 1):
            return t
        return "(" + t + ")"

    def neutral(self, stack, depth):
        """A statement with net stack effect 0."""
        r = self.r
        top = stack[-1] if stack else None
        opts = ["()"]
        if top == "I":
            opts += ["(%s add)" % self.small_int(), "(%s mul)" % self.small_int(), "hex", "dec", "(dup drop)"]
        if top == "S":
            opts += ["(%s add)" % self.str_lit(), "(dup drop)"]
        if top in ("Q", "QS", "QX", "QQ"):
            opts += ["([%s] add)" % self.leaf("I"), "(dup drop)"]
        if len(stack) >= 2:
            opts += ["swap"]
        if top == "E":
            opts += ["parent", "(child ?0)", "root"]
        return r.choice(opts), stack

    def unary(self, stack):
        r = self.r
        top = stack[-1]
        base = stack[:-1]
        if top == "I":
            w = r.choice(["hex", "dec", "oct", "bin", "value", "type", "pos", "(1 add)", "(2 mul)",
                          "(dup mul)", "(3 mod)", "(2 div)", "(1 sub)", '"%s"', '"%x"', '"%d"'])
            if w.startswith('"'):
                return w, base + ["S"]
            return w, base + ["I"]
        if top == "S":
            w = r.choice(["length", "elem", "relem", "type", "pos", '"<%s>"', "(dup add)"])
            if w in ("length", "type", "pos"):
                return w, base + ["I"]
            return w, base + ["S"]
        if top in ("Q", "QS", "QQ", "QX"):
            w = r.choice(["length", "elem", "relem", "elem", "type", "pos", "(dup add)", "[elem]"])
            if w in ("length", "type", "pos"):
                return w, base + ["I"]
            if w in ("elem", "relem"):
                et = {"Q": "I", "QS": "S", "QQ": "Q", "QX": "X"}[top]
                return w, base + [et]
            return w, base + [top]
        if top == "B":
            return "apply", base + ["X"]
        w = r.choice(["type", "pos", "dup"])
        return (w, stack + [top]) if w == "dup" else (w, base + ["I"])

    def binary(self, stack):
        r = self.r
        a, b = stack[-2], stack[-1]
        base = stack[:-2]
        if a == "I" and b == "I":
            return r.choice(["add", "sub", "mul", "div", "mod", "add", "add"]), base + ["I"]
        if a == "S" and b == "S":
            return "add", base + ["S"]
        if a in ("Q", "QS", "QQ", "QX") and b in ("Q", "QS", "QQ", "QX"):
            return "add", base + [a if a == b else "QX"]
        # ill-typed on purpose now and then
        if r.random() < 0.3:
            return r.choice(["add", "sub"]), base + ["X"]
        return "swap", base + [b, a]

    def closure(self, stack, depth):
        r = self.r
        top = stack[-1] if stack else None
        star = r.choice(["*", "*", "+"])
        if top == "I":
            # bounded on both sides: the start value is whatever is on the
            # stack, and counting up from -2^63 is as good as not terminating
            lim = r.choice([3, 5, 8, 12, 20])
            body = r.choice(["(?(0 ?ge) 1 add ?(%d ?lt))" % lim, "(?(0 ?ge) 2 add ?(%d ?lt))" % lim,
                             "((>= 0) dup 1 add swap drop ?(%d ?lt))" % lim, "((>= 0) 1 add (< %d))" % lim,
                             "(?(0 ?ge) (1 add, 2 add) ?(%d ?lt))" % min(lim, 8)])
            return body + star, stack
        if top in ("Q", "QQ", "QX", "QS") and r.random() < 0.7:
            # shrink a sequence: finite
            return "(?(length 0 ?gt) [elem ?(pos 0 !eq)])" + star, stack
        if top == "S":
            return "(?(length 4 ?lt) \"a\" add)" + star, stack
        if top == "E":
            return r.choice(["child", "parent", "(child ?0)", "(@AT_type)", "(?root child)"]) + star, stack
        if top is None or r.random() < 0.5:
            lim = r.choice([2, 4, 6])
            return "0 (1 add ?(%d ?lt))%s" % (lim, star), stack + ["I"]
        return "()" + star, stack

    def dw(self, stack, depth):
        r = self.r
        top = stack[-1]
        base = stack[:-1]
        if top == "D":
            w = r.choice(["entry", "entry", "unit", "unit root", "entry ?root", "symbol", "raw", "cooked",
                          "entry ?TAG_%s" % r.choice(TAGS), "abbrev", "name", "unit entry",
                          "raw entry", "raw unit", "dup entry swap drop", "entry ?(child)"])
            ty = {"unit": "U", "symbol": "Y", "raw": "D", "cooked": "D", "abbrev": "AB",
                  "name": "S", "raw unit": "U"}.get(w, "E")
            return w, base + [ty]
        if top == "U":
            w = r.choice(["root", "entry", "offset", "raw", "cooked", "version", "abbrev", "entry ?0"])
            ty = {"offset": "I", "version": "I", "raw": "U", "cooked": "U", "abbrev": "AB"}.get(w, "E")
            return w, base + [ty]
        if top == "E":
            w = r.choice(["child", "child", "parent", "root", "attribute", "attribute", "offset", "label",
                          "name", "@AT_%s" % r.choice(ATS), "?TAG_%s" % r.choice(TAGS),
                          "!TAG_%s" % r.choice(TAGS), "?AT_%s" % r.choice(ATS), "!AT_%s" % r.choice(ATS),
                          "raw", "cooked", "?root", "!root", "abbrev", "low", "high", "address",
                          "?haschildren", "raw child", "cooked child", "?(parent)", "!(child)",
                          "[child]", "[attribute label]", "(|E| E child E)", "dup parent swap drop"])
            if w in ("child", "parent", "root", "raw", "cooked", "raw child", "cooked child", "dup parent swap drop") \
                    or w[0] in "?!":
                return w, base + ["E"]
            if w in ("attribute",):
                return w, base + ["A"]
            if w in ("offset", "label", "low", "high"):
                return w, base + ["I"]
            if w == "name":
                return w, base + ["S"]
            if w == "abbrev":
                return w, base + ["AB"]
            if w.startswith("["):
                return w, stack + ["QX"]
            if w.startswith("(|E|"):
                return w, base + ["E", "E"]
            return w, base + ["X"]
        if top == "A":
            w = r.choice(["value", "label", "form", "value", "?AT_%s" % r.choice(ATS), "?FORM_strp",
                          "!FORM_data1", "raw", "cooked", "?(value)", "[value]", "dup label swap drop",
                          '"%s"'])
            if w in ("label", "form", "dup label swap drop"):
                return w, base + ["I"]
            if w == "value":
                return w, base + ["X"]
            if w.startswith("["):
                return w, stack + ["QX"]
            if w.startswith('"'):
                return w, base + ["S"]
            return w, base + ["A"]
        if top == "Y":
            w = r.choice(["name", "label", "binding", "visibility", "size", "address", "value", "?0", "!0"])
            if w == "name":
                return w, base + ["S"]
            if w[0] in "?!":
                return w, stack
            return w, base + ["I"]
        if top == "AB":
            w = r.choice(["entry", "offset", "attribute", "code", "label", "?haschildren", "[entry]"])
            if w.startswith("["):
                return w, stack + ["QX"]
            return w, base + ["X"]
        return "dup", stack + [top]

    def seq(self, stack, depth, n):
        parts = []
        for _ in range(n):
            if self.budget <= 0:
                break
            t, stack = self.stmt(stack, depth)
            parts.append(t)
        return self.join(parts), stack

    def deep_prefix(self, stack):
        """Five or more slots of mixed types, then pops: the stack profile
        (types near TOS, a fixed-width window) has to be refilled from below."""
        r = self.r
        parts = []
        n = r.randint(5, 8)
        for _ in range(n):
            t = r.choice("ISIQ")
            parts.append(self.leaf(t) if t != "Q" else "[]")
            stack = stack + [{"I": "I", "S": "S", "Q": "Q"}[t]]
        k = r.randint(2, n - 1)
        for _ in range(k):
            w = r.choice(["drop", "drop", "drop", "add", "swap drop"])
            parts.append(w)
            if len(stack) >= 1:
                stack = stack[:-1]
        return self.join(parts), stack

    def program(self, in_types):
        stack = list(in_types)
        if self.r.random() < 0.06:
            pre, stack = self.deep_prefix(stack)
            text, stack = self.seq(stack, 0, self.r.randint(1, 3))
            return self.join([pre, text]), stack
        n = self.r.randint(2, 8)
        text, stack = self.seq(stack, 0, n)
        # Make sure there is something on the stack to look at.
        if not stack and self.r.random() < 0.8:
            t, ty = self.push(stack, 1)
            text = self.join([text, t])
            stack.append(ty)
        return text, stack


def gen_program(rng, in_types, dwarf=False, bombs=True, ticks=True):
    g = G(rng, dwarf=dwarf, bombs=bombs, ticks=ticks)
    text, out = g.program(in_types)
    return text, {"bomb": g.has_bomb, "closure": g.has_closure, "out": out}


# Hand-written programs that put every stateful construct under a multi-stack
# stream; the generator mixes these in so that reach does not depend on luck.
SEED_PROGRAMS_ASET = [
    "0 0x10 aset", "0 0x10 aset 5 sub", "0 0x10 aset 0x100 0x110 aset add length", "0 0x10 aset 0x100 0x110 aset add range",
    "0 0x10 aset 0x100 0x110 aset add elem", "0 0x10 aset 0x8 0x18 aset overlap", "0 0x10 aset 0x8 0x18 aset sub",
    "0 0x10 aset 0x8 0x18 aset add", "0 0x20 aset (5, 7, 9) sub", "0 0x20 aset 5 sub 9 sub 0x10 sub length",
    "0 0x20 aset 0x4 0x8 aset sub 0x10 0x14 aset sub", "0 10 aset 10 ?contains", "0 10 aset 9 ?contains 1",
    "0 0x10 aset 0x8 0x18 aset ?overlaps 1", "0 0 aset ?empty 1", "0 0x10 aset low", "0 0x10 aset high",
    "0xfffffffffffffff0 0xffffffffffffffff aset length", "0xfffffffffffffff0 0xffffffffffffffff aset 0xfffffffffffffff8 sub",
    "0 0x10 aset dup add", "0 0x10 aset dup sub", "0 0x10 aset dup 3 sub swap 3 sub add", "(0, 4, 8) dup 4 add aset [|A| A elem]",
    "0 0x40 aset (1, 2) (|A N| A N sub A)", "[0 0x10 aset relem]", "0 0x10 aset \"%s\"", "0 0x1000 aset 0x10 0x20 aset sub range",
]

SEED_PROGRAMS_CORE = [
    "(2, let x := 1;?) x", "(let X := 1;)? X", "1 (let X := 2; X)?", "(let X := 1;)* X", "(1, 2) (let A := dup;)? A",
    "?match", "!match", "(|A B| A B ?match)", "(|A B| A (=~ B))", "?find", "?starts",
    "\"abc\" 1 2 3 4 drop drop drop drop 5 add", "\"abc\" 1 2 3 4 add add add add", "1 \"a\" [] 2 \"b\" 3 drop drop drop length",
    "[] \"x\" 1 2 3 4 5 drop drop drop drop add", "1 2 3 4 5 6 7 drop drop drop drop drop add",
    "-9223372036854775808 -1 mod", "-9223372036854775808 -1 div", "-9223372036854775808 -1 mul", "0x8000000000000000 bin",
    "0xffffffffffffffff \"%b\"", "-9223372036854775808 bin", "-9223372036854775808 hex", "-1 oct", "0 bin",
    "(1, 1 2, 3)", "(1 2, 3, 4 5)", "[1, 2, 3] dup add", "[1] (|B| [] B add B)", "(1, 2) [] [3] add",
    "if 1 then (1 2 add) else 3", "(1, 2) if (== 1) then (\"a\" \"b\" add length) else 0",
    "(1, 2) {1 add}", "{1 add}", "let X := 5; {X add}", "(1, 2) (|A| {A 10 mul})", "[{1}, {2}] elem",
    "1 2 let A B := ; A B add", "let A B := ; A B add", "(1, 2) 3 let A B := ; [A, B]",
    "let A B := 1 2; B A", "(1, 2) let A B := dup dup 1 add; A B mul",
    "(1 2 == 3 4) 5", "1 (2 == 2) 3", "(1, 2) (dup == 2 || dup 1 add == 2)",
    "add", "(1, 2) add", "length", "elem", "(\"a\", 1) 2 add", "dup add", "swap add", "2 add",
    "1, 2, 3",
    "(1, 2, 3) (10, 20)",
    "[1, 2, 3] elem",
    "[1, 2, 3] relem ?(pos 1 !eq)",
    "[[1, 2], [3], []] elem [elem]",
    "(1, 2, 3) ?(2 ?lt)",
    "(1, 2, 3) (== 2 || 10 mul)",
    "(1, 2) [dup, 1 add]",
    "(1, 2, 3) if (== 2) then 20 else (30, 31)",
    "(1, 2, 3) let X := dup 1 add; X X add",
    "(1, 2) (|A| A A mul, A)",
    "1 2 (|A B| B A [A B])",
    "0 (1 add ?(5 ?lt))*",
    "(0, 10) (1 add ?(dup 10 mod 4 ?lt))+",
    "(1, 2) \"<%s:%( dup 1 add %)>\"",
    "1 2 3 \"%s-%s-%s\"",
    "(1, 2, 3) \"%( (10, 20) %)\"",
    "(1, 2) {1 add} apply",
    "(1, 2) let F := {|A| A A mul}; F",
    "(1, 2) (|A| {A 1 add}) (|C| 5 C apply, C apply)",
    "let X := 5; (1, 2) {X add} apply",
    "1 2 3 `[7]", "1 2 3 ``[7]", "1 2 3 ```[7]", "1 2 3 `[]", "1 2 ``[(4, 5)]",
    "[\"a\", \"b\"] elem \"x\" add",
    "\"abc\" elem", "\"abc\" relem",
    "(1, 2, 3) ?1", "(1, 2, 3) !0",
    "(1, 2, 3) dup 2 mod swap drop",
    "[] [1] add [2] add",
    "(1, 2) [(3, 4)] add?",
    "(1, 2, 3) drop drop",
    "1 0 div", "(1, 2) (0, 1) mod",
    "(1, 2) type", "(1, \"a\", []) type",
    "(1, 2) (3, 4) (5, 6) add add",
    "[(1, 2, 3) if ?(2 ?lt) then () else (dup)]",
    "(1, 2, 3) (|A| [A, A 1 add] elem)",
    "(1, 2) ?(3, 4) !(?(1 2 ?eq))",
    "(\"a\", \"b\") (=~ \"a\") \"%s!\"",
    "[1, 2, 3] (|L| L elem (|E| [L elem (> E)]))",
    "(1, 2, 3) ?(2 !eq || drop drop drop drop drop drop)",
    "[(1, 2, 3) ?(3 !eq || drop drop drop drop drop drop)]",
    "(1, 2) \"%( ?(2 !eq || drop drop drop drop drop) %)\"",
    "(1, 2, 3) {?(2 !eq || drop drop drop drop drop)} apply",
    "(1, 2, 3) if ?(2 !eq || drop drop drop drop) then 1 else 2", "(1, 2, 3) if (3 !eq || drop drop drop drop) then 1 else 2", "[5, 6, 7] elem if ?(pos 1 !eq || drop drop drop drop) then 1 else 2",
    "0 (1 add ?(6 ?lt) ?(dup 4 !eq || drop drop drop drop))*",
]

DW_DIE_WORDS = ["name", "high", "low", "address", "label", "offset", "child", "parent", "root", "attribute",
                "abbrev", "raw", "cooked", "@AT_name", "@AT_type", "@AT_ranges", "@AT_location", "@AT_high_pc",
                "@AT_low_pc", "@AT_const_value", "@AT_decl_file", "@AT_decl_line", "@AT_byte_size",
                "@AT_data_member_location", "@AT_encoding", "@AT_sibling", "@AT_stmt_list", "@AT_language",
                "@AT_producer", "@AT_comp_dir", "@AT_frame_base", "@AT_import", "@AT_upper_bound",
                "attribute value", "attribute label", "attribute form", "attribute address",
                "?haschildren", "?root", "!root", "?TAG_subprogram", "?TAG_variable", "?AT_name", "!AT_name",
                "?AT_location", "@AT_location elem", "@AT_location elem label", "@AT_location elem value",
                "@AT_location address", "abbrev attribute", "abbrev code", "abbrev label",
                "@AT_location relem", "@AT_location relem label", "@AT_location elem offset", "\"%s\"", "\"%s\"",
                "?root", "root ?root", "parent ?root", "[child] length", "[attribute] length", "root",
                # predicates that look at a DIE in place, then a word that needs its abbreviation
                "!TAG_base_type", "?TAG_pointer_type", "!TAG_typedef", "?TAG_base_type", "!TAG_subprogram", "?TAG_const_type",
                "!TAG_base_type abbrev code", "?TAG_typedef abbrev label", "!TAG_pointer_type abbrev", "!TAG_variable abbrev attribute label",
                "raw parent", "cooked parent", "raw root", "raw parent offset", "cooked root offset"]


def gen_dw_simple(rng):
    """Short programs made of plain DWARF words: cheap, and between them they
    touch every producer and every libdw accessor."""
    if rng.random() < 0.1:
        return rng.choice(["symbol label", "symbol binding", "symbol name", "symbol visibility", "symbol size", "symbol address",
                           "symbol ?(label STT_FUNC ?eq) name", "[symbol label] length", "symbol \"%s\"", "symbol (label == STT_OBJECT) name",
                           "symbol binding \"%s\"", "symbol label \"%s\"", "symbol !0 ?(binding STB_GLOBAL ?eq) name",
                           "name dwopen unit offset", "name dwopen entry offset", "(|D| D name dwopen (== D))", "(|D| D name dwopen (!= D) 1)",
                           "name dwopen name", "dup name dwopen swap drop entry ?root offset",
                           "entry ?AT_low_pc address", "entry address 1 add", "entry address length", "entry ?(address) address range",
                           "entry address elem", "entry @AT_location address", "entry address dup sub", "[entry address] length"])
    head = rng.choice(["entry", "entry", "entry", "unit root", "unit entry", "raw entry", "entry ?root",
                       "entry child", "unit root child", "unit ?1 root", "unit !0 entry", "unit ?1 entry",
                       "unit", "unit ?1", "entry ?3", "entry !0 !1", "raw", "raw unit", "cooked unit", "unit relem" if False else "unit"])
    if rng.random() < 0.08:
        # a DIE reached by reference, looked at in place, then asked for something that needs its abbreviation
        return "%s %s %s %s" % (head if head.startswith(("entry", "unit root", "unit entry", "raw entry")) else "entry",
                                rng.choice(["@AT_type", "@AT_sibling", "@AT_specification", "@AT_abstract_origin", "@AT_import", "@AT_type @AT_type"]),
                                rng.choice(["!TAG_base_type", "?TAG_pointer_type", "!TAG_typedef", "!TAG_subprogram", "?TAG_base_type", "!AT_name", "?AT_name", "?haschildren", "!root"]),
                                rng.choice(["abbrev code", "abbrev label", "abbrev", "abbrev attribute label", "label", "offset", "parent offset",
                                            "attribute label", "child offset", "name", "\"%s\""]))
    n = rng.choice([1, 1, 2, 2, 3])
    words = [rng.choice(DW_DIE_WORDS) for _ in range(n)]
    k = rng.random()
    if k < 0.15:
        return "[%s %s] length" % (head, " ".join(words))
    if k < 0.25:
        return "%s ?(%s) %s" % (head, words[0], " ".join(words[1:]) or "offset")
    if k < 0.33:
        return "[%s %s] drop %s %s" % (head, words[0], head, " ".join(words[1:]) or "name")
    return head + " " + " ".join(words)


SEED_PROGRAMS_DW = [
    "unit \"%s\"", "entry \"%s\"", "[unit, entry] elem \"%s\"", "entry attribute \"%s\"", "unit ?1 root ?root",
    "unit ?1 entry ?root", "entry ?root", "entry !root root ?root", "raw", "cooked", "raw unit", "unit", "[unit] length",
    "[unit entry] length", "entry @AT_location relem", "entry @AT_location [relem] length", "entry @AT_location elem label",
    "entry ?(@AT_location relem) offset", "entry root \"%s\"", "entry parent \"%s\"", "entry ?TAG_imported_unit",
    "entry (|E| E parent E root)",
    "entry", "unit", "unit root", "entry ?root child", "entry parent",
    "entry attribute", "entry attribute value", "entry @AT_name", "entry name",
    "entry ?TAG_subprogram child", "entry (offset == 0x2d)", "entry [child] length",
    "entry ?root child*", "entry ?(parent) root", "entry @AT_type*",
    "entry ?AT_type [@AT_type+ offset]", "unit entry offset",
    "entry [attribute label] ?(length 2 ?gt)", "entry \"%( offset %): %( name || \"-\" %)\"",
    "entry raw child", "raw entry", "raw unit root", "entry cooked attribute ?AT_name value",
    "entry ?TAG_imported_unit @AT_import", "entry ?(attribute ?AT_sibling)",
    "abbrev entry", "abbrev entry attribute", "entry abbrev", "symbol", "symbol name",
    "symbol ?(label STT_FUNC ?eq) address", "entry ?AT_location @AT_location",
    "entry @AT_location elem", "entry ?AT_low_pc address", "entry low", "unit root high",
    "entry (|E| E child E parent)", "entry let N := name; N length",
    "(entry, unit root) offset", "entry if ?root then child else parent",
    "[entry] length", "[entry ?root] elem child", "entry ?root (child ?0)*",
    "entry root", "entry parent root", "dup entry swap unit",
    "entry ?(pos 3 !eq || drop drop drop drop drop drop)",
    "entry child ?(pos 1 !eq || drop drop drop drop drop drop)",
    "entry {child} apply", "let D := ; D entry (|E| D unit root (== E))",
    "name", "raw name", "entry ?root name", "entry @AT_decl_file", "entry ?TAG_variable @AT_type",
    "entry attribute form", "entry ?haschildren", "unit version", "unit offset",
]


# Seeds that need something on the input stack: (program, input types)
SEED_PROGRAMS_TYPED = [
    ("?match", "SS"), ("!match", "SS"), ("(|A B| A B ?match)", "SS"), ("(|A B| A (=~ B))", "SS"), ("(=~ \"a.*\")", "S"),
    ("?find", "SS"), ("?starts", "SS"), ("?ends", "SS"), ("add", "SS"), ("add", "II"), ("mod", "II"), ("div", "II"),
    ("mul", "II"), ("sub", "II"), ("?lt", "II"), ("?eq", "SS"), ("?eq", "II"), ("swap add", "SS"), ("length", "S"),
    ("elem", "S"), ("relem", "S"), ("\"%s-%s\"", "SS"), ("\"%d\"", "I"), ("\"%x %o %b\"", "III"), ("bin", "I"),
    ("hex", "I"), ("value", "I"), ("type", "I"), ("pos", "S"), ("dup add", "I"), ("dup mul", "I"), ("(|A B| B A)", "IS"),
    ("(|A| A A add)", "I"), ("[dup, dup 1 add]", "I"), ("(1 add, 2 add)", "I"), ("if (< 5) then 1 else 2", "I"),
    ("let X := ; X X add", "I"), ("{1 add} apply", "I"), ("(|A| {A}) apply", "S"), ("?(length 2 ?gt)", "S"),
    ("add length", "SS"), ("(|A B| [A, B])", "IS"), ("rot", "ISI"), ("over", "IS"), ("drop", "I"), ("swap", "SI"),
]


# ----------------------------------------------------------------- hostile

TOKENS = ["(", ")", "?(", "!(", "[", "]", "`[", "``[", "{", "}", "?{", "!{", "*", "+", "?", ",",
          "||", "|", ":", ";", ":=", "if", "then", "else", "let", "\\dbg", "dup", "swap", "drop",
          "add", "?eq", "!eq", "==", "!=", "<", "=~", "1", "0", "-1", "0x10", "0x", "0b", "0o", "08",
          "0b12", "0xg", "123foo", "18446744073709551615", "18446744073709551616",
          "-9223372036854775809", "99999999999999999999999999", "0x10000000000000000",
          "0b" + "1" * 65, "0" + "7" * 30, "?18446744073709551616", "?0", "!1", "?99999999999999999999",
          "\"a\"", "\"", "r\"", "\"%(", "%)", "\"%s\"", "\"\\x4\"", "\"\\777\"", "\"\\", "\"a\"\\",
          "\"%( \"%( 1 %)\" %)\"", "\"%(\"", "\"%( ( %)\"", "\"%( ) %)\"", "\"%( [ %)\"", "\"%( \\\" %)\"",
          "/*", "*/", "//", "#", "\n", "\t", " ", "\x00", "\xff", "\x80", "$", "@", "@AT_name", "?TAG_x",
          "A", "B", ".x", "~", "^", "&", "%", "entry", "child", "elem", "apply", "T_CONST"]


# One (or more) text for every way the lexer, the grammar actions and the
# builder can reject a query.
REJECT_SEEDS = [
    '"abc', 'r"abc', '"a%( 1', '"a%( "b', '"%( ) %)"', '"%( ( %)"', '"%( [ %)"', '"\\x4"', '"\\xzz"', '"\\8"',
    '"a"\\', '"a"\\ ', '"a"\\ x', '"%( "%( 1 %)" ) %)"', '"%( "abc %)"', '"%( 1 ) %)"', '"%(%)%("',
    '\x01', '\x7f', '\xff', '`', '``', '`1', '$', '~a', '1 ^ 2',
    '123foo', '0x', '0xg', '0b2', '08', '0o8', '18446744073709551616', '-18446744073709551616', '0x10000000000000000',
    '?18446744073709551616', '!99999999999999999999', '?1x', '!0b2',
    '1 2 "%( 0b2 %)"', '1 "%( 08 %)"', '[1 "%( 0x %)"', '(1, 2) "a%( 0o9 %)b"', '1 2 3 "%( "%( 0b2 %)" %)"',
    'let "a%sb" := 1;', 'let "%( 1 %)" := 1;', 'let "a%sb" := (1, 2) [3, 4];', 'let "x" "y" := 1;', 'let r"a%db" := ;',
    'let "foo" := 1; foo', 'let "" := 1;',
    '1 )', '(', '[', '{', '?(', '!{', '1 ]', '1 }', 'if 1 then 2', 'if 1 else 2', 'then', 'let A 1;', 'let := 1;', 'let A := 1',
    '(|A 1)', '(|A| A', '[|| 1]', '1 ,, 2', '|| ||', '1 :', ': 1', 'A:', '* 1', '1 ?? ?', '; 1',
    'nosuchword', '?nosuch', '@AT_nosuch', 'A', 'let A := 1; let A := 2;', '(|A| let A := 1;)', '(|A A| A)',
    'let A := A;', '{A}', '?(let A := 1;) A', '(let A := 1;, 2) A', 'if 1 then let A := 1; else 2 A',
]


def nul_twin(rng, text):
    """TEXT with a NUL byte and some junk put in at a token boundary (inside a
    splice if there is one): whatever compares, keys or copies query text as a
    C string sees the original."""
    junk = rng.choice(["\x00", "\x00junk", "\x00 )", "\x00 1 2 add", "\x00\x00", "\x00\"", "\x00 %)"])
    spots = [m.start() for m in re.finditer(r" %\)", text)] if "%(" in text and rng.random() < 0.7 else []
    if not spots:
        spots = [m.start() for m in re.finditer(r" ", text)] + [len(text)]
    at = rng.choice(spots)
    return text[:at] + junk + text[at:]


def gen_hostile(rng):
    """A byte string meant to stress the lexer/parser: returns latin-1 str."""
    k = rng.random()
    if k < 0.14:
        t = rng.choice(REJECT_SEEDS)
        e = rng.random()
        if e < 0.5:
            return t
        base, _ = gen_program(rng, [], bombs=False)
        if e < 0.7:
            return base + " " + t
        if e < 0.85:
            return t + " " + base
        return rng.choice(["(", "[", "?(", "{", "\"%( ", "if 1 then ", "let Q := "]) + t
    k = rng.random()
    if k < 0.08:
        return chr(rng.randrange(256))
    if k < 0.16:
        base, _ = gen_program(rng, [], bombs=False)
        pos = rng.randint(0, len(base))
        return base[:pos] + chr(rng.randrange(256)) + base[pos:]
    if k < 0.55:
        # token-level mutation of a valid program
        if rng.random() < 0.4 and corpus():
            base = rng.choice(corpus())[0]
        elif rng.random() < 0.5:
            base = rng.choice(SEED_PROGRAMS_CORE + SEED_PROGRAMS_DW)
        else:
            base, _ = gen_program(rng, [], bombs=False)
        toks = re.findall(r"\"(?:[^\"\\]|\\.)*\"|\S+|\s+", base) or [base]
        for _ in range(rng.randint(1, 4)):
            op = rng.random()
            i = rng.randrange(len(toks)) if toks else 0
            if op < 0.3 and toks:
                del toks[i]
            elif op < 0.6:
                toks.insert(i, rng.choice(TOKENS))
            elif op < 0.75 and len(toks) > 1:
                j = rng.randrange(len(toks))
                toks[i], toks[j] = toks[j], toks[i]
            elif op < 0.9 and toks:
                toks.insert(i, toks[i])
            elif toks:
                t = toks[i]
                if t:
                    c = rng.randrange(len(t))
                    toks[i] = t[:c] + t[c + 1:]
        return "".join(toks)
    if k < 0.7:
        # random token soup
        return " ".join(rng.choice(TOKENS) for _ in range(rng.randint(1, 12)))
    if k < 0.78:
        # deep nesting
        o, c = rng.choice([("(", ")"), ("[", "]"), ("?(", ")"), ("{", "}"), ("\"%( ", " %)\"")])
        n = rng.choice([1, 5, 50, 300, 300, 1200, 3000, 6000, 12000])
        if n > 300 and rng.random() < 0.5:
            o, c = rng.choice([("(", ")"), ("[", "]"), ("\"%( ", " %)\""), ("1 ", ""), ("(1, ", ")"), ("1 || ", ""),
                               ("(|A| ", ")"), ("A ", "")])
        miss = rng.choice([0, 0, 1, -1])
        return o * n + "1" + c * max(0, n + miss)
    if k < 0.88:
        # unterminated string / splice / comment at some nesting level
        pre = rng.choice(["", "1 ", "(", "[", "?(1 ", "\"a %( ", "{"])
        tail = rng.choice(["\"abc", "\"%( 1", "\"%( \"x", "/* abc", "\"\\", "r\"x\\", "\"%( %( %)",
                           "\"a\"\\ ", "\"a\"\\ r", "\"%( \"%( \" %)"])
        return pre + tail
    if k < 0.95:
        # integer literal corner cases with every prefix
        pref = rng.choice(["", "-", "0x", "0X", "0o", "0O", "0b", "0B", "0", "-0x", "-0"])
        digs = rng.choice(["", "0", "1", "7", "8", "9", "f", "F", "g", "z", "_", "1" * 64, "1" * 65,
                           "f" * 16, "f" * 17, "7" * 22, "1" + "7" * 21, "2" + "0" * 21,
                           "18446744073709551615", "18446744073709551616", "9223372036854775808",
                           "9" * 40, "1_000", "1.5", "1e5", "0" * 70 + "1", "0" * 100 + "7", "0" * 200 + "1",
                           "0" * 500 + "1", "0" * 64 + "f", "0" * 72, "0" * 150 + "9" * 30])
        q = rng.choice(["", "?", "!"]) if pref in ("", "0x", "0") else ""
        return rng.choice(["", "1 ", "( "]) + q + pref + digs + rng.choice(["", " ", ")", " add"])
    # raw random bytes
    return "".join(chr(rng.randrange(256)) for _ in range(rng.randint(1, 24)))
