"""Plans: the explicit, serialisable description of one simulated run.

A plan is a plain dict (JSON-able).  Executing a plan draws nothing from any
PRNG and reads no clock, so the plan *is* the replay file.

  {"profile": "C12",
   "knobs": {"poison": 85, "deny_mmap": 0, "cache_period": 0, ...},
   "files": [{"vpath": "/sim/0/a-common.out", "backing": "", "errno": 2}],
   "progs": [{"text": "<latin-1 str>", "mode": 0}],
   "steps": [{"c": 0, "op": "PARSE", "args": ["0", "0"], "io": [[0, 1]]}]}

Program text and string payloads are bytes carried as latin-1 strings.
"""
import copy
import hashlib
import json


def hexenc(b):
    if isinstance(b, str):
        b = b.encode("latin-1")
    return b.hex() if b else "-"


def hexdec(s):
    if s == "-":
        return b""
    return bytes.fromhex(s)


def new_plan(profile):
    return {"profile": profile, "knobs": {}, "files": [], "progs": [], "steps": []}


def step(c, op, *args, io=None):
    s = {"c": c, "op": op, "args": [str(a) for a in args]}
    if io:
        s["io"] = [list(x) for x in io]
    return s


def to_text(plan, plan_id="p"):
    out = ["plan %s" % plan_id, "profile %s" % plan["profile"]]
    for k in sorted(plan.get("knobs", {})):
        out.append("knob %s %d" % (k, int(plan["knobs"][k])))
    for f in plan.get("files", []):
        line = "file %s %s %d" % (hexenc(f["vpath"]), hexenc(f.get("backing", "")), int(f.get("errno", 0)))
        for off, byte in f.get("patches", []) or []:
            line += " patch:%d:%d" % (off, byte)
        out.append(line)
    for i, p in enumerate(plan.get("progs", [])):
        out.append("prog %d %d %s" % (i, int(p.get("mode", 0)), hexenc(p["text"])))
    for s in plan.get("steps", []):
        toks = ["step", str(s.get("c", 0)), s["op"]] + [str(a) for a in s.get("args", [])]
        for nth, kind in s.get("io", []) or []:
            toks.append("io:%d:%d" % (nth, kind))
        out.append(" ".join(toks))
    out.append("end")
    return "\n".join(out) + "\n"


def clone(plan):
    return copy.deepcopy(plan)


def digest(obj):
    return hashlib.sha256(json.dumps(obj, sort_keys=True).encode()).hexdigest()[:16]
