"""Per-profile history generators: from one seeded PRNG to one explicit plan
(DESIGN.md 3.3, 4.1-4.3)."""
import errno
import os

from . import gen
from . import plan as P

HERE = os.path.dirname(os.path.dirname(os.path.abspath(__file__)))
FIX = os.path.join(HERE, "fixtures")

PULL_CAP = 24

OPEN_ERRNOS = [errno.ENOENT, errno.EACCES, errno.EMFILE, errno.ENFILE, errno.EINTR,
               errno.EISDIR, errno.ELOOP, errno.ENOMEM, errno.EIO]
NON_ELF = ["text.txt", "empty", "trunc.elf", "garbage.bin", "adir", "elfhdr-only.bin"]

LIT_INTS = [("I", 0), ("I", 1), ("I", -1), ("I", 7), ("U", 2**64 - 1), ("I", -2**63),
            ("U", 255), ("I", 42), ("U", 65536), ("I", 3)]
LIT_STRS = [b"", b"a", b"foo", b"hello world", b"a\x00b", b"\xff\xfe", b"%s", b"main", b"x\ny",
            b"a.*", b"^f", b"(", b"[a", b"o$", b"foo"]
DOMS = ["dec", "dec", "dec", "hex", "oct", "bin", "bool", "tag", "attr"]


def lit_item(rng, ty):
    if ty == "I":
        k, v = rng.choice(LIT_INTS)
        dom = rng.choice(DOMS)
        if dom == "bool":
            v, k = rng.choice([0, 1]), "U"
        if dom in ("tag", "attr"):
            v, k = rng.choice([0x11, 0x2e, 0x34, 0x03, 0x49, 0xffff]), "U"
        t = "%s:%d:%s" % (k, v, dom)
    else:
        s = rng.choice(LIT_STRS)
        t = ("Z:" if (b"\x00" not in s and rng.random() < 0.3) else "S:") + P.hexenc(s)
    if rng.random() < 0.25:
        t = "t" + t
    return t


class Builder:
    """Bookkeeping for handle numbers while a history is being laid out."""

    def __init__(self, rng, profile):
        self.r = rng
        self.plan = P.new_plan(profile)
        self.nq = self.nv = self.ni = self.nr = self.no = 0
        self.setup = []         # sequential prefix
        self.scripts = {}       # client -> list of steps
        self.epilogue = []

    def prog(self, text, mode=0):
        for i, p in enumerate(self.plan["progs"]):
            if p["text"] == text and p["mode"] == mode:
                return i
        self.plan["progs"].append({"text": text, "mode": mode})
        return len(self.plan["progs"]) - 1

    def q(self):
        self.nq += 1
        return self.nq - 1

    def v(self):
        self.nv += 1
        return self.nv - 1

    def i(self):
        self.ni += 1
        return self.ni - 1

    def res(self):
        self.nr += 1
        return self.nr - 1

    def o(self):
        self.no += 1
        return self.no - 1

    def merge(self):
        """Seeded interleaving of the client scripts: the explicit schedule."""
        r = self.r
        pend = {c: list(s) for c, s in self.scripts.items() if s}
        order = []
        style = r.random()
        burst_left, cur = 0, None
        while pend:
            keys = sorted(pend)
            if style < 0.15:
                c = keys[0]                       # sequential: one client after another
            elif style < 0.35:
                c = keys[len(order) % len(keys)]  # round robin
            else:
                if burst_left > 0 and cur in pend:
                    c = cur
                    burst_left -= 1
                else:
                    c = r.choice(keys)
                    cur = c
                    burst_left = r.choice([0, 0, 0, 1, 2, 4])
            order.append(pend[c].pop(0))
            if not pend[c]:
                del pend[c]
        self.plan["steps"] = self.setup + order + self.epilogue
        return self.plan


def scale_watchdog(plan):
    """Parsing is quadratic in places; long inputs get a proportionate
    watchdog so that slowness is not mistaken for a hang, and the very long
    ones only go to the production-like build."""
    n = max([len(p["text"]) for p in plan["progs"]] or [0])
    if n > 1500:
        plan["knobs"]["plain_only"] = 1
        plan["knobs"]["leakcheck"] = 0
    if n > 400:
        # per step; generous, because slow is not hung
        plan["knobs"]["watchdog_s"] = 60
    return plan


def pick_files(rng, n):
    fs = []
    pool = list(gen.DW_FILES)
    # bias towards files with an alt link and several units
    for _ in range(n):
        k = rng.random()
        if k < 0.45:
            f = rng.choice(["a1.out", "dwz-partial2-1", "dwz-partial3-1", "twocus", "dwz-partial",
                            "dwz-partial4-1.o", "k1.o", "k2.o", "three.a", "two.a", "loclists.o"])
        elif k < 0.55:
            # the deliberately odd samples
            f = rng.choice(["haschildren_childless", "empty", "inconsistent-types", "duplicate-const",
                            "imported-AT_decl_file.o", "attribute-die-cooked-no-dup.o"])
        else:
            f = rng.choice(pool)
        if f not in fs:
            fs.append(f)
    return fs


def common_knobs(rng, plan, buggify=True):
    kn = plan["knobs"]
    kn["poison"] = rng.choice([85, 85, 0x00, 0xAA, 0xFF, rng.randrange(256)]) if buggify else 85
    if buggify and rng.random() < 0.4:
        kn["cache_period"] = rng.choice([1, 2, 3, 5, 7, 11])
        kn["cache_offset"] = rng.randrange(kn["cache_period"])
    kn["deny_mmap"] = 1 if (buggify and rng.random() < 0.12) else 0
    if buggify and rng.random() < 0.2:
        kn["stale_dwerr"] = 1
    if buggify and rng.random() < 0.15:
        kn["dropq_busy"] = 1        # a query may be destroyed while its result sets are live
    kn["watchdog_s"] = 5
    kn["baseline_watchdog_s"] = 3


LAST_WORD_TYPE = {"abbrev": "AB", "attribute": "A", "unit": "U", "symbol": "Y", "entry": "E", "child": "E", "parent": "E",
                  "root": "E", "name": "S", "offset": "I", "label": "I", "raw": None, "cooked": None, "@AT_type": "E",
                  "@AT_import": "E", "@AT_sibling": "E", "length": "I", "address": "X", "value": "X", "elem": "X", "form": "I"}


def infer_top(text, default="X"):
    """Type of the value a plain DWARF word sequence leaves on top, from its last word."""
    toks = text.replace("(", " ").replace(")", " ").split()
    if not toks:
        return "D"
    t = LAST_WORD_TYPE.get(toks[-1], default)
    if t is None:
        return "D" if len(toks) == 1 else default
    if toks[-1] in ("entry", "attribute") and len(toks) >= 2 and toks[-2] == "abbrev":
        return "X"
    return t


def _choose_program(rng, in_types, dwarf, file_hint=None, bombs=True):
    """Returns (text, info)."""
    k = rng.random()
    if dwarf:
        if k < 0.2:
            return rng.choice(gen.SEED_PROGRAMS_DW), {"bomb": False, "out": ["X"], "src": "seed"}
        if k < 0.5 and in_types == ["D"]:
            return gen.gen_dw_simple(rng), {"bomb": False, "out": ["X"], "src": "dw-simple"}
        if k < 0.6:
            c = [q for q, f in gen.corpus() if f is not None]
            if c:
                return rng.choice(c), {"bomb": False, "out": ["X"], "src": "corpus"}
    else:
        typed = [t for t, ty in gen.SEED_PROGRAMS_TYPED if list(ty) == list(in_types)]
        if typed and k < 0.35:
            return rng.choice(typed), {"bomb": False, "out": ["X"], "src": "typed-seed"}
        if not in_types and k < 0.25:
            return rng.choice(gen.SEED_PROGRAMS_CORE), {"bomb": False, "out": ["X"], "src": "seed"}
        if not in_types and k < 0.31:
            return rng.choice(gen.SEED_PROGRAMS_ASET), {"bomb": False, "out": ["X"], "src": "aset-seed"}
        if not in_types and k < 0.35:
            c = [q for q, f in gen.corpus() if f is None]
            if c:
                return rng.choice(c), {"bomb": False, "out": ["X"], "src": "corpus"}
    text, info = gen.gen_program(rng, in_types, dwarf=dwarf, bombs=bombs)
    info["src"] = "gen"
    return text, info


def pull_pattern(rng, sweep_k=None):
    """How many pulls before the result is destroyed; None = drain."""
    if sweep_k is not None:
        return sweep_k
    k = rng.random()
    if k < 0.35:
        return None
    if k < 0.5:
        return 0
    if k < 0.65:
        return 1
    if k < 0.8:
        return rng.randint(2, 4)
    return rng.randint(2, PULL_CAP)




def task_steps(b, c, q, i, npulls, keep_at=None):
    """EXEC, pulls, CANCEL for one result set.  Returns (steps, kept handle)."""
    r = b.res()
    steps = [P.step(c, "EXEC", r, q, i)]
    n = PULL_CAP if npulls is None else npulls
    kept = None
    for k in range(n):
        if keep_at is not None and k == keep_at:
            kept = b.o()
            steps.append(P.step(c, "PULL", r, kept))
        else:
            steps.append(P.step(c, "PULL", r))
    if b.plan["profile"] in ("C14", "C13") and b.r.random() < 0.4:
        for _ in range(b.r.choice([1, 2])):
            steps.append(P.step(c, "PULLX", r))
    steps.append(P.step(c, "CANCEL", r))
    return steps, kept


def add_env_faults(rng, b, files, vals):
    """Fault-injecting configuration: at most two environment faults."""
    plan = b.plan
    kinds = []
    n = rng.choice([1, 1, 2])
    for _ in range(n):
        kinds.append(rng.choice(["alt-missing", "io", "io", "deny-mmap-io"]))
    for k in kinds:
        if k == "alt-missing":
            cands = [f for f in files if f in gen.ALT_OF]
            if cands:
                f = rng.choice(cands)
                plan["files"].append({"vpath": "/sim/0/" + gen.ALT_OF[f], "backing": "",
                                      "errno": rng.choice([errno.ENOENT, errno.EACCES, errno.EMFILE])})
        elif k in ("io", "deny-mmap-io"):
            if k == "deny-mmap-io":
                plan["knobs"]["deny_mmap"] = 1
            # attach to a random OPEN / EXEC / PULL step
            cands = [s for s in (b.setup + sum(b.scripts.values(), []))
                     if s["op"] in ("OPEN", "EXEC", "PULL")]
            if cands:
                s = rng.choice(cands)
                s["io"] = [[rng.choice([0, 0, 1, 2, 3, 5, 8]), rng.choice([1, 1, 2, 3])]]


def damage_a_file(rng, plan, files):
    """One byte of one DWARF section of one file reads differently (through
    the file-layer seam; the file on disk is untouched).  Both the history and
    its baselines see the same damaged file, so the comparison stays fair; what
    this adds is executions in which libdw *fails half-way*."""
    from . import elfsec
    if not files:
        return False
    f = rng.choice(files)
    path = os.path.join(gen.REPO, "tests", f)
    if not os.path.exists(path):
        path = os.path.join(HERE, "fixtures", "elf", f)
    secs, data = elfsec.sections(path)
    cands = [n for n in (".debug_info", ".debug_info", ".debug_abbrev", ".debug_abbrev", ".debug_str",
                         ".debug_loc", ".debug_ranges", ".debug_aranges", ".symtab", ".debug_types")
             if n in secs]
    if not cands:
        return False
    if rng.random() < 0.2 and ".shstrtab" in secs:
        # one byte of a section *name*: libdw does not find that section any
        # more, and everything that needs it fails while the DIE tree is intact
        so, ss = secs[".shstrtab"]
        names = [n for n in (".debug_str", ".debug_line", ".debug_loc", ".debug_ranges", ".debug_aranges", ".debug_types", ".symtab", ".strtab")
                 if n in secs]
        if names:
            n = rng.choice(names)
            at = data.find(n.encode() + b"\0", so, so + ss)
            if at >= 0:
                plan["files"].append({"vpath": "/sim/0/" + f, "backing": "", "errno": 0,
                                      "patches": [[at + len(n) - 1, ord("X")]]})
                return True
    off, size = secs[rng.choice(cands)]
    npatch = rng.choice([1, 1, 1, 2])
    patches = []
    for _ in range(npatch):
        o = off + rng.randrange(size)
        k = rng.random()
        if k < 0.5:
            b = data[o] ^ (1 << rng.randrange(8))
        elif k < 0.75:
            b = rng.choice([0, 0xff, 0x7f, 0x80])
        else:
            b = rng.randrange(256)
        patches.append([o, b])
    plan["files"].append({"vpath": "/sim/0/" + f, "backing": "", "errno": 0, "patches": patches})
    return True


def gen_history(rng, profile, faults=False, sweep=False, hostile=False, reuse=False, damaged=False):
    """C12/C13/C14 histories share one shape; the flags pick the workload mix.

    faults  : inject environment faults (separate batch, oracle relaxed on the
              Dwarf values that saw one)
    sweep   : C13 style -- one (program, input) pair, cancel after every k
    hostile : C14 style -- programs come from the hostile generator
    """
    b = Builder(rng, profile)
    plan = b.plan
    common_knobs(rng, plan)
    if profile != "C13":
        plan["knobs"]["leakcheck"] = 0

    if reuse and rng.random() < 0.6:
        return gen_reuse(rng, profile)
    use_dw = rng.random() < (0.55 if not hostile else 0.3) or damaged
    files = pick_files(rng, rng.choice([1, 1, 2])) if use_dw else []

    # ---- values and inputs
    vals = []       # (v, file, raw)
    for f in files:
        nopen = rng.choice([1, 1, 2])
        for _ in range(nopen):
            v = b.v()
            raw = rng.random() < 0.3
            b.setup.append(P.step(0, "OPEN", v, P.hexenc("/sim/0/" + f), "raw" if raw else "cooked"))
            vals.append((v, f, raw))
            if rng.random() < 0.2:
                w = b.v()
                b.setup.append(P.step(0, "CLONEV", w, v))
                vals.append((w, f, raw))

    # unhealthy files (fault batches and C14): their OPEN must fail cleanly
    if (faults or hostile) and rng.random() < 0.6:
        v = b.v()
        if rng.random() < 0.5:
            plan["files"].append({"vpath": "/sim/0/bad%d" % v, "backing": "",
                                  "errno": rng.choice(OPEN_ERRNOS)})
        else:
            plan["files"].append({"vpath": "/sim/0/bad%d" % v,
                                  "backing": os.path.join(FIX, rng.choice(NON_ELF)), "errno": 0})
        b.scripts.setdefault(rng.randint(0, 2), []).append(
            P.step(0, "OPEN", v, P.hexenc("/sim/0/bad%d" % v), rng.choice(["raw", "cooked"])))

    groups = []     # each: {"types": [...], "inputs": [i...], "dw": bool}
    ngroups = 1 if sweep else rng.choice([1, 1, 2, 2, 3])
    for _ in range(ngroups):
        if vals and rng.random() < 0.7:
            ins = []
            for (v, f, raw) in rng.sample(vals, min(len(vals), rng.choice([1, 2, 3]))):
                i = b.i()
                b.setup.append(P.step(0, "MKIN", i, ("tV:%d" if rng.random() < 0.2 else "V:%d") % v))
                ins.append(i)
            groups.append({"types": ["D"], "inputs": ins, "dw": True})
        else:
            k = rng.random()
            types = [] if k < 0.45 else [rng.choice("IS") for _ in range(rng.randint(1, 3))]
            forced = None
            if rng.random() < 0.25:
                # a program that takes its operands from the input stack, and inputs to match
                forced, ty = rng.choice(gen.SEED_PROGRAMS_TYPED)
                types = list(ty)
            ins = []
            mixed = rng.random() < 0.3
            pooled = (not mixed) and types and rng.random() < (0.8 if forced else 0.4)
            pool = {}
            for _ in range(rng.choice([1, 1, 2, 3] if mixed else [2, 3, 4] if pooled else [1, 1, 2])):
                i = b.i()
                its = list(types)
                if pooled:
                    # slots drawn from a small per-slot pool: consecutive
                    # executions see the same value in some slot again
                    items = []
                    for j, t in enumerate(its):
                        pl = pool.setdefault(j, [lit_item(rng, t) for _ in range(2)])
                        items.append(rng.choice(pl))
                    b.setup.append(P.step(0, "MKIN", i, *items))
                    ins.append(i)
                    continue
                if mixed and its and ins:
                    # same query, input stacks of different shape: one slot of
                    # another type, or one slot more or less
                    m = rng.random()
                    j = rng.randrange(len(its))
                    if m < 0.6:
                        its[j] = "S" if its[j] == "I" else "I"
                    elif m < 0.8:
                        its.insert(j, rng.choice("IS"))
                    else:
                        del its[j]
                b.setup.append(P.step(0, "MKIN", i, *[lit_item(rng, t) for t in its]))
                ins.append(i)
            groups.append({"types": types, "inputs": ins, "dw": False, "forced": forced})

    # ---- programs and queries
    queries = []    # (q, prog idx, group, info)
    decoys = []
    for g in groups:
        for _ in range(1 if sweep else rng.choice([1, 1, 2])):
            if hostile:
                text = gen.gen_hostile(rng)
                info = {"bomb": False, "out": ["X"], "src": "hostile"}
                # hostile programs that compile are only executed if they
                # cannot legitimately run forever
                info["noexec"] = ("*" in text or "+" in text)
            elif g.get("forced") and rng.random() < 0.8:
                text, info = g["forced"], {"bomb": False, "out": ["X"], "src": "typed-seed"}
            elif damaged and g["dw"] and rng.random() < 0.7:
                text = rng.choice(["entry attribute value", "entry attribute value", "entry attribute \"%s\"", "entry attribute value \"%s\"",
                               "entry @AT_decl_file", "entry @AT_type !TAG_base_type abbrev code", "entry \"%s\"",
                               "unit entry attribute cooked value", "entry raw attribute value"]) if rng.random() < 0.3 else \
                rng.choice(REUSE_PROGRAMS + ["entry parent offset", "entry child parent offset",
                                                    "unit root child parent offset", "entry root offset"]
                              # DIEs behind the damaged spot, reached by reference rather than by walking
                              + ["entry @AT_type parent offset", "entry @AT_type parent", "entry @AT_sibling parent offset",
                                 "entry @AT_specification parent offset", "entry @AT_abstract_origin parent offset",
                                 "entry ?(offset 0x90 ?lt) @AT_type parent offset", "entry @AT_type root offset",
                                 "entry @AT_type @AT_type parent offset", "entry attribute ?(form FORM_ref4 ?eq) value parent offset",
                                 "entry @AT_const_value", "entry ?TAG_enumerator @AT_const_value", "entry attribute value"])
                info = {"bomb": False, "out": ["X"], "src": "cache-dependent"}
            else:
                text, info = choose_program(rng, g["types"], g["dw"])
            mode = rng.choice([0, 0, 1, 2]) if "\x00" not in text else rng.choice([1, 2])
            p = b.prog(text, mode)
            q = b.q()
            queries.append((q, p, g, info))
            # the same text compiled twice
            if rng.random() < 0.3:
                q2 = b.q()
                queries.append((q2, b.prog(text, rng.choice([0, 1, 2]) if "\x00" not in text else 2), g, info))
    # decoys: texts that are compiled (or rejected) around the real ones
    for _ in range(rng.choice([0, 1, 1, 2, 3])):
        k = rng.random()
        if k < 0.35:
            text = rng.choice(["`[7]", "``[7]", "```[1]", "1 `[]", "1 2 ``[]", "`[1, 2]", "1 2 3 ```[]"])
        elif k < 0.7:
            text = gen.gen_hostile(rng)
            if len(text) > 400 and profile != "C14":
                text = text[:400]       # the long ones are C14's (plain build only)
        else:
            text, _ = choose_program(rng, [], False)
        decoys.append(b.prog(text, 2 if "\x00" in text else rng.choice([0, 1, 2])))

    # twins: the text of a real query (or a splice-bearing one) with a NUL and
    # junk inside; compiled after the original, in length mode
    twins = []
    if not sweep and rng.random() < 0.15:
        base = rng.choice([b.plan["progs"][p_]["text"] for (_, p_, _, _) in queries]
                          + ['"%( 1 %)"', '"a%( 1 2 add %)b"', '"%s"', '(1, 2) "%( 3 %)"', '"%( "%( 1 %)" %)"', '[1, 2] elem "<%( dup %)>"'])
        if "\x00" not in base and len(base) < 400:
            first = b.prog(base, rng.choice([0, 1, 2]))
            twins = [first] + [b.prog(gen.nul_twin(rng, base), rng.choice([1, 2])) for _ in range(rng.choice([1, 2]))]
            plan["knobs"]["check_parse"] = 1

    # vocabularies: most queries use the harness's prebuilt core+dwarf one; in
    # some runs the plan builds its own through the API, in both orders, plus
    # a core-only one, and compiles against those
    vocs = {}
    if not sweep and not hostile and rng.random() < 0.1:
        kinds = [("core", "dw"), ("dw", "core"), ("core",), ("core", "dw")]
        if rng.random() < 0.3:
            # an add that is refused (a part twice): the vocabulary stays what it was, and is used
            kinds = [("core", "core", "dw"), ("core", "dw", "core"), ("core", "dw", "dw"), ("dw", "dw", "core"), ("core", "core")]
        for vi in range(rng.choice([1, 2, 3])):
            vocs[vi] = rng.choice(kinds) if vi > 0 else rng.choice(kinds[:2])
            b.setup.append(P.step(0, "VOC", vi, *vocs[vi]))

    voc_late = []
    if vocs and rng.random() < 0.5:
        # a vocabulary that is extended after queries were compiled against it
        vi = len(vocs)
        vocs[vi] = ("core",)
        b.setup.append(P.step(0, "VOC", vi, "core"))
        for t_ in rng.sample(["length", "elem", "add", "value", "[] length", "\"ab\" elem", "1 2 add", "1 value", "name", "offset"], 3):
            b.setup.append(P.step(0, "PARSE", b.q(), b.prog(t_, 0), vi))
        b.setup.append(P.step(0, "VOCADD", vi, "dw"))
        vocs[vi] = ("core", "dw")
        for t_ in rng.sample(["length", "elem", "add", "value", "[] length", "\"ab\" elem", "1 2 add", "1 value", "name", "offset"], 3):
            ql = b.q()
            b.setup.append(P.step(0, "PARSE", ql, b.prog(t_, 0), vi))
            voc_late.append(ql)

    def parse_step(c, q, p, g=None):
        # in a plan that builds vocabularies, every compile names one
        if vocs:
            cands = [vi for vi, kind in sorted(vocs.items()) if "dw" in kind or g is None or not g["dw"]]
            return P.step(c, "PARSE", q, p, rng.choice(cands or sorted(vocs)))
        return P.step(c, "PARSE", q, p)

    # setup-phase compiles, in seeded order, decoys mixed in
    parse_steps = [parse_step(0, q, p, g) for (q, p, g, info) in queries]
    for d in decoys:
        if rng.random() < 0.6:
            dq = b.q()
            parse_steps.append(parse_step(0, dq, d))
            if rng.random() < 0.5:
                parse_steps.append(P.step(0, "DROPQ", dq))
    # keep DROPQ after its PARSE: shuffle by blocks
    blocks, cur = [], []
    for s in parse_steps:
        if s["op"] == "DROPQ":
            cur.append(s)
        else:
            if cur:
                blocks.append(cur)
            cur = [s]
    if cur:
        blocks.append(cur)
    rng.shuffle(blocks)
    if twins:
        # original first, its twins right after or at the very end of the compiles
        tb = [parse_step(0, b.q(), t_) for t_ in twins]
        if rng.random() < 0.5:
            blocks.append(tb)
        else:
            blocks.insert(rng.randint(0, len(blocks)), tb)
    late = []
    for blk in blocks:
        # some compiles happen in the middle of the history instead
        if rng.random() < 0.2 and not sweep:
            late.append(blk)
        else:
            b.setup += blk

    # ---- client scripts
    nclients = 1 if sweep else rng.choice([1, 2, 2, 3, 3, 4])
    for c in range(nclients):
        b.scripts.setdefault(c, [])
    for blk in late:
        c = rng.randrange(nclients)
        b.scripts[c] += [dict(s, c=c) for s in blk]

    runnable = [(q, p, g, info) for (q, p, g, info) in queries if not info.get("noexec")]
    if sweep and runnable:
        # every abandonment point of one (query, input) pair, plus a drain
        q, p, g, info = runnable[0]
        i = g["inputs"][0]
        ks = list(range(0, rng.choice([6, 10, PULL_CAP]) + 1))
        for k in ks:
            st, _ = task_steps(b, 0, q, i, k)
            b.scripts[0] += st
            if rng.random() < 0.3 and len(runnable) > 1:
                q2, p2, g2, _ = runnable[1]
                st2, _ = task_steps(b, 0, q2, g2["inputs"][0], rng.choice([None, 1, 2]))
                # interleave a second live result set
                b.scripts[0] += st2
        st, _ = task_steps(b, 0, q, i, None)
        b.scripts[0] += st
    elif runnable:
        ntasks = rng.choice([2, 3, 4, 5, 6, 8])
        for _ in range(ntasks):
            c = rng.randrange(nclients)
            q, p, g, info = rng.choice(runnable)
            i = rng.choice(g["inputs"])
            npulls = pull_pattern(rng)
            keep_at = None
            if rng.random() < 0.25 and (npulls is None or npulls > 0):
                keep_at = rng.randint(0, min(3, (npulls or 4) - 1))
            own_q = None
            if keep_at is not None and rng.random() < 0.5:
                # the value will outlive the query (and result) it came from
                own_q = b.q()
                st0 = [parse_step(c, own_q, p, g)]
                st, kept = task_steps(b, c, own_q, i, npulls, keep_at)
                st = st0 + st + [P.step(c, "DROPQ", own_q)]
            else:
                st, kept = task_steps(b, c, q, i, npulls, keep_at)
            if kept is not None and not hostile and rng.random() < 0.2:
                # the output stack goes straight in as the input of another execution, unlooked at
                for s_ in st:
                    if s_["op"] == "PULL" and len(s_["args"]) >= 2 and s_["args"][1] == str(kept):
                        s_["args"].append("blind")
                q2 = b.q()
                text2 = rng.choice(["", "dup", "type", "\"%s\"", "[dup]", "drop", "swap", "over", "root name", "name", "offset", "length",
                                    "elem", "1 add", "child offset", "attribute label", "entry offset", "unit offset"])
                st = st + [parse_step(c, q2, b.prog(text2, 0), g)]
                r2 = b.res()
                st.append(P.step(c, "EXECO", r2, q2, kept))
                for _ in range(rng.choice([1, 2, 4, PULL_CAP])):
                    st.append(P.step(c, "PULL", r2))
                st.append(P.step(c, "CANCEL", r2))
                if rng.random() < 0.5:
                    st.append(P.step(c, "RENDER", kept))
                st.append(P.step(c, "DROPO", kept))
                kept = None
            if kept is not None and not hostile:
                # a value travels from this execution into another one
                depth = 0
                out_t = info.get("out") or ["X"]
                top = out_t[-1] if out_t else "X"
                if top in ("AB", "A", "Y", "U") and rng.random() < 0.7:
                    text2, info2 = rng.choice({"AB": ["attribute", "attribute label", "code", "offset", "entry", "label", "?haschildren", "attribute form"],
                                               "A": ["value", "label", "form", "\"%s\"", "?AT_name", "raw value"],
                                               "Y": ["name", "label", "address", "size", "binding", "visibility", "\"%s\""],
                                               "U": ["root", "entry offset", "offset", "version", "abbrev entry", "\"%s\""]}[top]), {"out": ["X"]}
                elif top == "E" and rng.random() < 0.4:
                    text2, info2 = rng.choice(E_FOLLOWUPS), {"out": ["X"]}
                elif top in ("Q", "QS", "QQ", "QX") and rng.random() < 0.5:
                    text2, info2 = rng.choice(Q_FOLLOWUPS), {"out": ["X"]}
                elif top == "D" and rng.random() < 0.4:
                    text2, info2 = rng.choice(["unit offset", "entry offset", "[unit] length", "[unit entry] length", "unit root offset",
                                               "raw unit offset", "cooked unit offset", "entry ?root offset"]), {"out": ["X"]}
                else:
                  text2, info2 = choose_program(rng, [top] if top in ("I", "S", "Q", "QS", "QQ", "E", "A", "U", "D")
                                              else [], top in ("E", "A", "U", "D"), bombs=False) \
                    if top not in ("X", "B") else (rng.choice(["dup", "type", "\"%s\"", "[dup]", "apply", "elem", "child", "value", "attribute", "attribute label",
                                                               "entry", "label", "offset", "name", "root", "parent", "length", "address",
                                                               "apply", "(|F| 5 F)", "(|F| (1, 2) F)", "5 swap apply",
                                                               "(|F| F)", "dup apply"]), {"out": ["X"]})
                q2 = b.q()
                i2 = b.i()
                share = [x for x in runnable if x[2] is not None and x[2]["dw"]]
                if top in ("D", "X") and g["dw"] and share and rng.random() < 0.5:
                    # the derived value (e.g. the raw flavour of the same
                    # Dwarf) goes through a query that other inputs use too
                    sq, sp, sg, sinfo = rng.choice(share)
                    text2, info2 = b.plan["progs"][sp]["text"], sinfo
                extra = [parse_step(c, q2, b.prog(text2, 0), g),
                         P.step(c, "MKIN", i2, "O:%d:%d" % (kept, depth))]
                if voc_late and rng.random() < 0.5:
                    # through a query compiled against a vocabulary that grew in the meantime
                    q2 = rng.choice(voc_late)
                    extra = [P.step(c, "MKIN", i2, "O:%d:%d" % (kept, depth))]
                early_drop = rng.random() < 0.35
                if early_drop:
                    # only the clone on the new input stack is left of where the value came from
                    extra.append(P.step(c, "DROPO", kept))
                    if vals and rng.random() < 0.6:
                        for (vv, ff, rr) in vals:
                            extra.append(P.step(c, "DROPV", vv))
                        for gg in groups:
                            for ii in gg["inputs"]:
                                extra.append(P.step(c, "DROPI", ii))
                elif rng.random() < 0.5:
                    extra.append(P.step(c, "RENDER", kept))
                st2, _ = task_steps(b, c, q2, i2, pull_pattern(rng))
                if not early_drop and top in ("E", "Q", "QS", "QQ", "QX", "A", "U", "D") and rng.random() < 0.5:
                    # the same kept value once more, through another query (or
                    # the same one again): whatever the first use filled in or
                    # changed in the value must not show in the second
                    text3 = rng.choice(E_FOLLOWUPS if top == "E" else Q_FOLLOWUPS if top.startswith("Q") else
                                       ["offset", "\"%s\"", "label", "dup", "type"]) if rng.random() < 0.7 else text2
                    q3, i3 = b.q(), b.i()
                    st3 = [parse_step(c, q3, b.prog(text3, 0), g), P.step(c, "MKIN", i3, "O:%d:%d" % (kept, depth))]
                    s3, _ = task_steps(b, c, q3, i3, pull_pattern(rng))
                    if rng.random() < 0.5:
                        st2 = st2 + st3 + s3
                    else:
                        # both alive at once
                        st2 = st3 + [s3[0]] + st2 + s3[1:]
                    queries.append((q3, b.plan["progs"].index({"text": text3, "mode": 0}), None, {"out": ["X"]}))
                if early_drop and rng.random() < 0.6:
                    # the input stack goes as soon as the execution has started:
                    # the result set has its own copy
                    st2.insert(1, P.step(c, "DROPI", i2))
                extra += st2
                if not early_drop and rng.random() < 0.5:
                    extra.append(P.step(c, "DROPO", kept))
                queries.append((q2, b.plan["progs"].index({"text": text2, "mode": 0}), None, info2))
                # splice: the derived work starts after the pull that keeps the value
                st = st + extra
            b.scripts[c] += st
        # the raw and the cooked flavour of one Dwarf handle through the same
        # compiled query: "raw"/"cooked" yields the other flavour, which becomes
        # the input of a query that also runs on the original
        dwq = [x for x in runnable if x[2] is not None and x[2]["dw"]]
        if dwq and rng.random() < 0.2:
            q, p, g, info = rng.choice(dwq)
            i = rng.choice(g["inputs"])
            c = rng.randrange(nclients)
            qf = b.q()
            kept = b.o()
            rf = b.res()
            i2 = b.i()
            st = [parse_step(c, qf, b.prog(rng.choice(["raw", "cooked", "raw", ""]), 0), g), P.step(c, "EXEC", rf, qf, i),
                  P.step(c, "PULL", rf, kept), P.step(c, "CANCEL", rf), P.step(c, "MKIN", i2, "O:%d:0" % kept)]
            order = [i, i2] if rng.random() < 0.5 else [i2, i]
            for ii in order + ([order[0]] if rng.random() < 0.5 else []):
                s2, _ = task_steps(b, c, q, ii, rng.choice([None, None, 3]))
                st += s2
            b.scripts[c] += st
        # the same query over inputs that repeat: A, B, B, A -- anything keyed
        # by input values that outlives one execution (a memo in an op, say)
        # sees an equal key again, right after a different one
        if rng.random() < 0.3:
            cands = [x for x in runnable if x[2] is not None and len(x[2]["inputs"]) >= 2]
            if cands:
                q, p, g, info = rng.choice(cands)
                a, bb = rng.sample(g["inputs"], 2)
                c = rng.randrange(nclients)
                for i in rng.choice([[a, bb, bb, a], [a, bb, bb], [a, a, bb, bb, a]]):
                    st, _ = task_steps(b, c, q, i, rng.choice([None, None, 2]))
                    b.scripts[c] += st
        # lifecycle noise: drop and re-create shared objects in mid-history
        for _ in range(rng.choice([0, 0, 1, 2]) + (1 if plan["knobs"].get("dropq_busy") else 0)):
            c = rng.randrange(nclients)
            k = rng.random()
            pos = rng.randint(0, len(b.scripts[c]))
            if k < 0.3 and vals:
                v, f, raw = rng.choice(vals)
                b.scripts[c].insert(pos, P.step(c, "DROPV", v))
            elif k < 0.5 and groups:
                g = rng.choice(groups)
                b.scripts[c].insert(pos, P.step(c, "DROPI", rng.choice(g["inputs"])))
            elif k < 0.7 and files:
                v = b.v()
                f = rng.choice(files)
                b.scripts[c].insert(pos, P.step(c, "OPEN", v, P.hexenc("/sim/0/" + f),
                                                rng.choice(["raw", "cooked"])))
                if rng.random() < 0.7:
                    b.scripts[c].insert(min(len(b.scripts[c]), pos + rng.randint(1, 6)),
                                        P.step(c, "DROPV", v))
            elif plan["knobs"].get("dropq_busy") and runnable and rng.random() < 0.7:
                qd = rng.choice(runnable)[0]
                b.scripts[c].insert(pos, P.step(c, "DROPQ", qd))
            elif decoys:
                dq = b.q()
                b.scripts[c].insert(pos, parse_step(c, dq, rng.choice(decoys)))

    if not sweep and rng.random() < STORM_P:
        add_storm(rng, b, parse_step, nclients)

    if faults:
        add_env_faults(rng, b, files, vals)
    if damaged:
        damage_a_file(rng, plan, files)

    # elfutils 0.188 leaks its 1 MiB decompression probe buffers when mmap
    # fails on a file that is not ELF; that is not dwgrep's to release, so
    # the combination is not generated (DESIGN.md 4.2).
    if any(f.get("backing") for f in plan["files"]):
        plan["knobs"]["deny_mmap"] = 0
    if damaged:
        plan["knobs"]["watchdog_s"] = 4
    scale_watchdog(plan)

    # ---- epilogue: every program once more, sequentially, in the laden process
    if not sweep:
        seen = set()
        for (q, p, g, info) in queries:
            if g is None or p in seen or info.get("noexec"):
                continue
            seen.add(p)
            q2 = b.q()
            b.epilogue.append(parse_step(9, q2, p, g))
            for i in g["inputs"][:2]:
                st, _ = task_steps(b, 9, q2, i, rng.choice([PULL_CAP, 8]))
                b.epilogue += st
            if len(seen) >= 3:
                break

    return b.merge()


STORM_P = float(os.environ.get("VERIF_STORM_P", "0.04"))
STORM_REJECTS = ['"%( let %)"', '"a%( ) %)"', '"%( "%( nosuchword %)" %)"', '[ let ]', '{ let }', '(1, let)', '?( nosuchword )',
                 'if let then 1 else 2', '(|A| B)', '[|A| let A := 1;]', '1 (2 nosuchword)*', '"%( 0b2 %)"', '"abc', '`',
                 'let "a%sb" := 1;', '(1, 2) {A}', '"%( [ %)"', '"%( 1 %)" )', '[ "%( ( %)" ]']
STORM_FAILS = ["drop", "1 2 drop drop drop", "\"%s\"", "[(1, 2) drop drop]", "{drop} apply", "(1, drop)", "\"%( drop %)\"",
               "1 \"a\" add", "[1] 1 add", "1 elem", "if drop then 1 else 2", "1 (drop drop)*", "let A := drop; 1"]
STORM_ABANDONS = ["(1, 2, 3)", "[1, 2, 3] elem", "\"abc\" elem", "(1, 2) \"%( (3, 4) %)\"", "[(1, 2, 3)] elem", "{(1, 2)} apply",
                  "(1, 2) (3, 4)", "0 (1 add ?(5 ?lt))*", "(1 || 2) (3, 4)", "let A := (1, 2); A (5, 6)", "[1, 2] relem",
                  "(1, 2, 3) ?(2 ?ge)", "if (1, 2) then (3, 4) else 5"]
STORM_PROBES = ['"<%( 1 %)>"', '"%( "%( 2 %)" %)"', "[1, 2]", "{1} apply", "(1, 2)", "if ?(1 1 ?eq) then 1 else 2", "0 (1 add ?(3 ?lt))*",
                "(|A| 1)", "let A := 1; A", "?(1)", "(1 || 2)", "[|A| 1]", "1 \"%s\"", "\"abc\" elem", "[1, 2] elem", "(1, 2) \"%( (3, 4) %)\""]


def add_storm(rng, b, parse_step, nclients):
    """The same unhappy thing a hundred times and more, then ordinary work:
    whatever an error or abandonment path forgets to undo (a depth counter, a
    slot in a table, a reference) adds up until a limit is reached."""
    n = rng.choice([100, 101, 104, 128, 130, 200, 257, 300])
    kind = rng.choice(["reject", "reject", "fail", "abandon"])
    steps = []
    if kind == "reject":
        p = b.prog(rng.choice(STORM_REJECTS), rng.choice([0, 0, 1, 2]))
        for _ in range(n):
            steps.append(parse_step(0, b.q(), p))
    else:
        text = rng.choice(STORM_FAILS if kind == "fail" else STORM_ABANDONS)
        q, i = b.q(), b.i()
        steps.append(parse_step(0, q, b.prog(text, 0)))
        steps.append(P.step(0, "MKIN", i))
        fresh_q = rng.random() < 0.3
        for _ in range(n):
            if fresh_q:
                q = b.q()
                steps.append(parse_step(0, q, b.prog(text, 0)))
            r = b.res()
            steps.append(P.step(0, "EXEC", r, q, i))
            for _ in range(1 if kind == "fail" else rng.choice([0, 1, 1, 2])):
                steps.append(P.step(0, "PULL", r))
            steps.append(P.step(0, "CANCEL", r))
            if fresh_q:
                steps.append(P.step(0, "DROPQ", q))
    # afterwards: constructs of every kind are compiled and run once more
    after = []
    i0 = b.i()
    after.append(P.step(0, "MKIN", i0))
    for text in rng.sample(STORM_PROBES, 6):
        q = b.q()
        after.append(parse_step(0, q, b.prog(text, 0)))
        r = b.res()
        after.append(P.step(0, "EXEC", r, q, i0))
        for _ in range(6):
            after.append(P.step(0, "PULL", r))
        after.append(P.step(0, "CANCEL", r))
    if rng.random() < 0.5:
        b.setup = steps + b.setup
        b.epilogue = after + b.epilogue
    else:
        c = rng.randrange(nclients)
        sc = b.scripts.setdefault(c, [])
        pos = rng.randint(0, len(sc))
        sc[pos:pos] = [dict(s, c=c) for s in steps]
        b.epilogue = after + b.epilogue
    b.plan["knobs"]["storm"] = n


E_FOLLOWUPS = ["root offset", "parent offset", "root", "parent", "root \"%s\"", "?root offset", "parent ?root offset", "parent \"%s\"",
               "root child offset", "root label", "raw parent offset", "cooked parent offset", "raw root offset", "raw parent",
               "raw parent parent offset", "cooked parent raw parent offset", "raw child offset", "cooked child offset", "raw attribute label",
               "cooked attribute label", "raw \"%s\"", "raw parent \"%s\""]
Q_FOLLOWUPS = ["elem [9] add", "[9] add", "elem", "dup elem [1] add", "relem", "elem elem", "elem \"x\" add", "elem 1 add", "length",
               "dup [7] add swap length", "[elem] length", "elem [9] add length", "(|S| S elem [S length] add)", "relem [0] add"]
REUSE_PROGRAMS = ["entry ?root offset", "entry root offset", "entry parent offset", "entry ?(parent) root offset",
                  "unit root offset", "entry !root parent ?root offset", "entry (|E| E root (== E)) offset",
                  "[entry ?root] length", "entry child parent offset", "entry ?root name",
                  "entry ?TAG_subprogram root offset", "unit entry ?root offset", "entry root ?root offset"]


def gen_reuse(rng, profile):
    """Address-reuse histories for the plain (non-ASan) build: open a file, use
    it, release *everything* derived from it, open another file.  glibc hands
    the freed Dwfl/Dwarf blocks out again at once, so anything keyed by their
    addresses that outlives them (a cache made process-global, say) is hit by
    a different file."""
    b = Builder(rng, profile)
    plan = b.plan
    common_knobs(rng, plan, buggify=False)
    plan["knobs"]["leakcheck"] = 0
    nq = rng.choice([1, 2, 2, 3])
    queries = []
    for _ in range(nq):
        if rng.random() < 0.7:
            text = rng.choice(REUSE_PROGRAMS)
        else:
            text, _ = choose_program(rng, ["D"], True, bombs=False)
        q = b.q()
        p = b.prog(text, 0)
        b.setup.append(P.step(0, "PARSE", q, p))
        queries.append(q)
    phases = rng.choice([2, 3, 3, 4, 5])
    pool = pick_files(rng, 3) + [rng.choice(gen.DW_FILES)]
    for ph in range(phases):
        f = rng.choice(pool)
        v = b.v()
        i = b.i()
        b.setup.append(P.step(0, "OPEN", v, P.hexenc("/sim/0/" + f), rng.choice(["cooked", "cooked", "raw"])))
        b.setup.append(P.step(0, "MKIN", i, "V:%d" % v))
        for q in rng.sample(queries, rng.randint(1, len(queries))):
            st, _ = task_steps(b, 0, q, i, rng.choice([None, None, PULL_CAP, 3, 1]))
            b.setup += st
        b.setup.append(P.step(0, "DROPI", i))
        b.setup.append(P.step(0, "DROPV", v))
    return b.merge()


def gen_mustfail(rng, profile="C14"):
    """Programs whose run-time failure is certain by construction, with the
    expected outcome attached to every pull; two clients, so that a failure
    arrives while other result sets are live."""
    from . import mustfail
    b = Builder(rng, profile)
    plan = b.plan
    common_knobs(rng, plan)
    plan["knobs"]["leakcheck"] = 0
    plan["knobs"]["fresh_voc"] = 1
    i = b.i()
    b.setup.append(P.step(0, "MKIN", i))
    if rng.random() < 0.3:
        # vocabularies put together the wrong way: an error, not an abort
        b.setup.append(P.step(0, "VOC", 7, *rng.choice([("core", "core"), ("dw", "dw"), ("core", "dw", "core"),
                                                         ("dw", "core", "dw"), ("core", "dw", "dw")])))
    nclients = rng.choice([1, 2, 2, 3])
    for c in range(nclients):
        b.scripts[c] = []
    for _ in range(rng.choice([2, 3, 4, 6])):
        c = rng.randrange(nclients)
        pre, ii = [], i
        if rng.random() < 0.3:
            text, items, exp = rng.choice(mustfail.TABLE_IN)
            ii = b.i()
            pre = [P.step(c, "MKIN", ii, *items)]
        else:
            text, exp = rng.choice(mustfail.TABLE)
        q = b.q()
        r = b.res()
        st = pre + [P.step(c, "PARSE", q, b.prog(text, rng.choice([0, 1, 2]))), P.step(c, "EXEC", r, q, ii)]
        for e in exp:
            s = P.step(c, "PULL", r)
            s["expect"] = e
            st.append(s)
        for _ in range(rng.choice([0, 1, 2])):
            st.append(P.step(c, "PULLX", r))      # pulls after the failure: contract only
        st.append(P.step(c, "CANCEL", r))
        b.scripts[c] += st
    return b.merge()


def choose_program(rng, in_types, dwarf, file_hint=None, bombs=True):
    text, info = _choose_program(rng, in_types, dwarf, file_hint, bombs)
    if dwarf and info.get("out") == ["X"] and list(in_types) == ["D"]:
        info = dict(info, out=[infer_top(text)])
    return text, info


SURVIVOR_FOLLOWUPS = {
    "AB": ["attribute", "attribute label", "code", "offset", "entry", "label", "?haschildren", "attribute form", "[attribute] length"],
    "A": ["value", "label", "form", "\"%s\"", "raw value", "[value] length"],
    "Y": ["name", "label", "address", "size", "binding", "\"%s\""],
    "U": ["root", "entry offset", "offset", "version", "abbrev entry", "[entry] length", "root child offset"],
    "E": ["child offset", "parent offset", "root offset", "attribute label", "[child] length", "name", "\"%s\"", "abbrev attribute label",
          "@AT_type offset", "child*  offset", "[attribute value] length"],
    "D": ["entry offset", "unit offset", "[entry] length", "symbol name", "abbrev entry offset", "name"],
    "B": ["apply", "(|F| 5 F)", "dup apply", "(|F| (1, 2) F)"],
    "X": ["\"%s\"", "type", "dup", "elem", "length", "value", "label", "attribute", "child offset", "apply"],
}


def gen_sole_survivor(rng, profile):
    """A value outlives everything it came from -- the result set, the query,
    the input stack, the Dwarf value, the output stack it was found on -- and
    is then used by a new query; the new input stack goes too, as soon as the
    execution has started.  Whatever the value needs must be kept alive by the
    value itself."""
    b = Builder(rng, profile)
    plan = b.plan
    common_knobs(rng, plan)
    if profile != "C13":
        plan["knobs"]["leakcheck"] = 0
    dw = rng.random() < 0.75
    S = b.setup
    if dw:
        f = rng.choice(pick_files(rng, 2))
        v = b.v()
        S.append(P.step(0, "OPEN", v, P.hexenc("/sim/0/" + f), rng.choice(["cooked", "cooked", "raw"])))
        i0 = b.i()
        S.append(P.step(0, "MKIN", i0, "V:%d" % v))
        text, info = choose_program(rng, ["D"], True, bombs=False)
    else:
        i0 = b.i()
        S.append(P.step(0, "MKIN", i0))
        text = rng.choice(["{1 add}", "(1, 2) {1 add}", "let X := 5; {X add}", "(1, 2) (|A| {A 10 mul})", "[{1}, {2}] elem",
                           "[1, [2, 3]]", "\"abc\"", "let X := [1, 2]; {X elem}", "(1, 2) (|A| {|B| A B add})"])
        info = {"out": ["B" if "{" in text else "X"]}
    q0 = b.q()
    S.append(P.step(0, "PARSE", q0, b.prog(text, 0)))
    r0 = b.res()
    S.append(P.step(0, "EXEC", r0, q0, i0))
    for _ in range(rng.choice([0, 0, 1, 2, 5])):
        S.append(P.step(0, "PULL", r0))
    o = b.o()
    S.append(P.step(0, "PULL", r0, o))
    i1 = b.i()
    mk = P.step(0, "MKIN", i1, "O:%d:0" % o)
    # the order in which the origins go varies; the clone is made at a seeded point
    goners = [P.step(0, "CANCEL", r0), P.step(0, "DROPQ", q0), P.step(0, "DROPI", i0)]
    if dw:
        goners.append(P.step(0, "DROPV", v))
    rng.shuffle(goners)
    # DROPQ is only honoured once the result set is gone (unless the knob says otherwise)
    goners.sort(key=lambda s: 0 if s["op"] == "CANCEL" else 1)
    S.append(mk)
    S += goners
    S.append(P.step(0, "DROPO", o))
    top = (info.get("out") or ["X"])[-1] if info.get("out") else "X"
    text2 = rng.choice(SURVIVOR_FOLLOWUPS.get(top, SURVIVOR_FOLLOWUPS["X"]))
    q1 = b.q()
    S.append(P.step(0, "PARSE", q1, b.prog(text2, 0)))
    r1 = b.res()
    S.append(P.step(0, "EXEC", r1, q1, i1))
    if rng.random() < 0.7:
        S.append(P.step(0, "DROPI", i1))
    for _ in range(rng.choice([1, 3, PULL_CAP])):
        S.append(P.step(0, "PULL", r1))
    S.append(P.step(0, "CANCEL", r1))
    return b.merge()


REPLACED_PROGRAMS = ['"/sim/0/swap.o" dwopen unit root name', '"/sim/0/swap.o" dwopen entry offset', '"/sim/0/swap.o" dwopen entry name',
                     '[ "/sim/0/swap.o" dwopen entry ] length', '"/sim/0/swap.o" dwopen symbol name', '"/sim/0/swap.o" dwopen name',
                     '"/sim/0/swap.o" dwopen entry ?TAG_subprogram name', '"/sim/0/swap.o" dwopen unit entry ?root @AT_producer',
                     '("/sim/0/swap.o", "/sim/0/swap.o") dwopen unit root name', '"/sim/0/swap.o" dwopen raw unit offset',
                     '"/sim/0/swap.o" dwopen entry ?root "%s"', '"/sim/0/swap.o" dwopen [entry ?TAG_base_type name]']
REPLACED_ON_INPUT = ['dwopen unit root name', 'dwopen entry offset', '[dwopen entry] length', 'dup dwopen entry name', 'dwopen symbol label']
SWAP_FILES = ["a1.out", "twocus", "nullptr.o", "bitcount.o", "y.o", "typedef.o", "enum.o", "nontrivial-types.o", "aranges.o",
              "defaulted.o", "char_16_32.o", "duplicate-const", "k1.o", "k2.o"]


def gen_replaced_file(rng, profile):
    """The file behind a path is replaced between executions (the simulated
    disk's answer to a rebuild while a long-lived process keeps its compiled
    queries): a query that opens the file by name must see what a fresh
    parse-and-run sees -- the new file -- however often it ran before.  No
    result set is alive while the file changes."""
    b = Builder(rng, profile)
    plan = b.plan
    common_knobs(rng, plan)
    if profile != "C13":
        plan["knobs"]["leakcheck"] = 0
    plan["knobs"]["deny_mmap"] = 0
    fa, fb = rng.sample(SWAP_FILES, 2)

    def backing(f):
        p = os.path.join(gen.REPO, "tests", f)
        return p if os.path.exists(p) else os.path.join(FIX, "elf", f)
    plan["files"].append({"vpath": "/sim/0/swap.o", "backing": backing(fa), "errno": 0})
    S = b.setup
    on_input = rng.random() < 0.35
    i0 = b.i()
    if on_input:
        text = rng.choice(REPLACED_ON_INPUT)
        S.append(P.step(0, "MKIN", i0, "S:" + P.hexenc("/sim/0/swap.o")))
    else:
        text = rng.choice(REPLACED_PROGRAMS)
        S.append(P.step(0, "MKIN", i0))
    q = b.q()
    S.append(P.step(0, "PARSE", q, b.prog(text, 0)))
    # a plain OPEN of the same path as well: values opened before and after
    v0 = b.v()
    if rng.random() < 0.5:
        S.append(P.step(0, "OPEN", v0, P.hexenc("/sim/0/swap.o"), "cooked"))

    def run(qq, n):
        r = b.res()
        st = [P.step(0, "EXEC", r, qq, i0)]
        for _ in range(n):
            st.append(P.step(0, "PULL", r))
        st.append(P.step(0, "CANCEL", r))
        return st
    for _ in range(rng.choice([1, 1, 2])):
        S += run(q, rng.choice([PULL_CAP, PULL_CAP, 1, 2]))
    for k in range(rng.choice([1, 1, 2])):
        S.append(P.step(0, "REMAP", P.hexenc("/sim/0/swap.o"), P.hexenc(backing(fb if k == 0 else fa))))
        S += run(q, PULL_CAP)
        if rng.random() < 0.5:
            q2 = b.q()
            S.append(P.step(0, "PARSE", q2, b.prog(text, 0)))
            S += run(q2, PULL_CAP)
        if rng.random() < 0.4:
            v1 = b.v()
            i1, q3 = b.i(), b.q()
            S += [P.step(0, "OPEN", v1, P.hexenc("/sim/0/swap.o"), "cooked"), P.step(0, "MKIN", i1, "V:%d" % v1),
                  P.step(0, "PARSE", q3, b.prog(rng.choice(["unit root name", "entry offset", "[entry] length"]), 0))]
            r = b.res()
            S.append(P.step(0, "EXEC", r, q3, i1))
            S += [P.step(0, "PULL", r) for _ in range(PULL_CAP)]
            S.append(P.step(0, "CANCEL", r))
    return b.merge()


FLAVOUR_PROGS = ["parent offset", "raw parent offset", "cooked parent offset", "root offset", "raw root offset", "raw child offset",
                 "child offset", "raw attribute label", "attribute label", "parent parent offset", "raw parent raw parent offset",
                 "cooked raw parent offset", "raw cooked parent offset", "parent", "raw parent", "raw", "cooked", "\"%s\"", "raw \"%s\"",
                 "parent \"%s\"", "raw parent \"%s\"", "?root", "raw ?root", "parent ?root offset", "raw parent ?root offset",
                 "name", "raw name", "@AT_type offset", "raw @AT_type offset", "abbrev code", "raw abbrev code", "unit offset",
                 "raw unit offset", "[parent+ offset]", "[raw parent+ offset]", "root child offset", "raw root child offset"]
FLAVOUR_SOURCES = ["entry", "entry", "entry", "raw entry", "entry child", "unit entry", "entry @AT_type", "entry ?TAG_imported_unit @AT_import child",
                   "unit root child", "entry ?(parent ?TAG_partial_unit)", "raw entry ?(parent ?TAG_partial_unit) cooked",
                   "entry attribute", "unit", "raw unit", "entry @AT_location", "symbol"]


def gen_flavours(rng, profile):
    """One value (a DIE mostly: cooked DIEs carry an import path, raw ones do
    not) taken from an output stack and used by several queries, in both
    flavours, one after the other or side by side, directly and through
    clones: whatever one use works out and keeps in the value (a parent, a
    root, a unit, a flavour) must not be what another use gets."""
    b = Builder(rng, profile)
    plan = b.plan
    common_knobs(rng, plan)
    if profile != "C13":
        plan["knobs"]["leakcheck"] = 0
    S = b.setup
    f = rng.choice(["dwz-partial", "dwz-partial2-1", "dwz-partial3-1", "dwz-partial4-1.o", "a1.out"]) if rng.random() < 0.7 \
        else rng.choice(pick_files(rng, 1))
    v = b.v()
    S.append(P.step(0, "OPEN", v, P.hexenc("/sim/0/" + f), rng.choice(["cooked", "cooked", "raw"])))
    i0 = b.i()
    S.append(P.step(0, "MKIN", i0, "V:%d" % v))
    q0 = b.q()
    S.append(P.step(0, "PARSE", q0, b.prog(rng.choice(FLAVOUR_SOURCES), 0)))
    r0 = b.res()
    S.append(P.step(0, "EXEC", r0, q0, i0))
    for _ in range(rng.choice([0, 1, 2, 3, 4, 5, 6, 8, 10, 12, 16, 20])):
        S.append(P.step(0, "PULL", r0))
    o = b.o()
    S.append(P.step(0, "PULL", r0, o))
    if rng.random() < 0.5:
        S.append(P.step(0, "CANCEL", r0))
    n = rng.choice([2, 2, 3, 4])
    progs = [rng.choice(FLAVOUR_PROGS) for _ in range(n)]
    if rng.random() < 0.5:
        # a word and its raw twin, in either order
        w = rng.choice(["parent offset", "root offset", "child offset", "attribute label", "parent parent offset", "?root", "name"])
        pair = [w, "raw " + w]
        rng.shuffle(pair)
        progs[:2] = pair
    one_input = rng.random() < 0.4
    ishared = b.i()
    if one_input:
        S.append(P.step(0, "MKIN", ishared, "O:%d:0" % o))
    runs = []
    for t in progs:
        q = b.q()
        if one_input:
            i = ishared
        else:
            i = b.i()
            S.append(P.step(0, "MKIN", i, "O:%d:0" % o))
        S.append(P.step(0, "PARSE", q, b.prog(t, 0)))
        st, _ = task_steps(b, 0, q, i, rng.choice([None, None, 1, 3]))
        runs.append(st)
    if rng.random() < 0.5:
        for st in runs:
            S += st
    else:
        # side by side: all executions started, then pulled round robin
        for st in runs:
            S.append(st[0])
        rest = [st[1:] for st in runs]
        while any(rest):
            for r_ in rest:
                if r_:
                    S.append(r_.pop(0))
    return b.merge()


ODD_FILES = ["haschildren_childless", "haschildren_childless", "empty", "inconsistent-types", "duplicate-const",
             "imported-AT_decl_file.o", "attribute-die-cooked-no-dup.o", "dwz-partial4-1.o", "testfile_const_type", "const_value_block.o"]
ODD_REFS = ["@AT_type", "@AT_type", "@AT_sibling", "@AT_specification", "@AT_abstract_origin", "@AT_import", "@AT_type @AT_type", "child", "parent", ""]
ODD_PREDS = ["!TAG_base_type", "?TAG_pointer_type", "!TAG_typedef", "!TAG_subprogram", "?TAG_base_type", "!AT_name", "?AT_name", "?haschildren",
             "!haschildren", "!root", "?root", "", "", "?(label)", "?(offset)", "!(name)", "(|E| E)"]
ODD_TAILS = ["abbrev code", "abbrev label", "abbrev", "abbrev attribute label", "abbrev offset", "abbrev ?haschildren", "label", "offset",
             "parent offset", "parent", "root offset", "attribute label", "attribute value", "attribute", "child offset", "child", "name",
             "\"%s\"", "@AT_name", "@AT_type offset", "high", "low", "address", "unit offset", "[child] length", "[attribute] length",
             "raw attribute label", "cooked child offset", "abbrev entry offset", "abbrev attribute form"]


def gen_odd_file(rng, profile):
    """The repo's deliberately odd sample files (a DIE whose children flag lies,
    a DW_AT_type that points at a null entry, an empty file, inconsistent
    types, ...) under chains of the shape: reach a DIE by reference, look at
    it in place, then ask for something that needs more of it."""
    b = Builder(rng, profile)
    plan = b.plan
    common_knobs(rng, plan)
    if profile != "C13":
        plan["knobs"]["leakcheck"] = 0
    f = "haschildren_childless" if rng.random() < 0.4 else rng.choice(ODD_FILES)
    v = b.v()
    b.setup.append(P.step(0, "OPEN", v, P.hexenc("/sim/0/" + f), rng.choice(["cooked", "cooked", "raw"])))
    i = b.i()
    b.setup.append(P.step(0, "MKIN", i, "V:%d" % v))
    nclients = rng.choice([1, 1, 2])
    for c in range(nclients):
        b.scripts[c] = []
    for _ in range(rng.choice([2, 3, 4])):
        head = rng.choice(["entry", "entry", "raw entry", "unit root", "unit entry", "entry child"])
        pred = rng.choice(ODD_PREDS) if rng.random() < 0.6 else \
            rng.choice(["!TAG_base_type", "!TAG_typedef", "!TAG_subprogram", "!TAG_pointer_type", "!AT_name", "!AT_type", "!root", "!haschildren"])
        tail = rng.choice(ODD_TAILS) if rng.random() < 0.6 else \
            rng.choice([t for t in ODD_TAILS if t.startswith("abbrev")])
        text = " ".join(w for w in [head, rng.choice(ODD_REFS), pred, tail] if w)
        c = rng.randrange(nclients)
        q = b.q()
        b.scripts[c].append(P.step(c, "PARSE", q, b.prog(text, 0)))
        st, _ = task_steps(b, c, q, i, pull_pattern(rng))
        b.scripts[c] += st
    return b.merge()


WALKERS = ["entry @AT_location \"%s\"", "entry @AT_location", "entry @AT_location elem label", "entry @AT_location address", "entry ?AT_location @AT_location elem offset",
           "entry @AT_ranges", "entry address", "entry attribute label", "entry attribute value", "entry child offset", "unit entry offset",
           "unit root name", "entry @AT_type offset", "entry name", "symbol name", "abbrev entry offset", "entry abbrev attribute label",
           "entry \"%s\"", "unit \"%s\"", "entry @AT_location relem label", "entry [@AT_location] length", "entry @AT_decl_file",
           "entry @AT_location (|L| L address, L elem label)"]


def gen_twin_walks(rng, profile):
    """Two or three result sets of one walking query (or of two such queries)
    over the same Dwarf value, alive together and pulled in a seeded
    alternation to the end: whatever a walk keeps in the handle rather than in
    its own state (a base address, a cursor, a scratch list) is clobbered by
    its twin."""
    b = Builder(rng, profile)
    plan = b.plan
    common_knobs(rng, plan)
    if profile != "C13":
        plan["knobs"]["leakcheck"] = 0
    S = b.setup
    f = rng.choice(["loclists.o", "loclists.o", "k1.o", "k2.o", "k1-g3.o", "bitcount.o", "a1.out", "twocus", "three.a", "dwz-partial2-1"]) \
        if rng.random() < 0.7 else rng.choice(pick_files(rng, 1))
    v = b.v()
    S.append(P.step(0, "OPEN", v, P.hexenc("/sim/0/" + f), rng.choice(["cooked", "cooked", "raw"])))
    i0 = b.i()
    S.append(P.step(0, "MKIN", i0, "V:%d" % v))
    inputs = [i0]
    if rng.random() < 0.3:
        i1 = b.i()
        S.append(P.step(0, "MKIN", i1, "V:%d" % v))
        inputs.append(i1)
    texts = [rng.choice(WALKERS)]
    if rng.random() < 0.4:
        texts.append(rng.choice(WALKERS))
    qs = []
    for t in texts:
        q = b.q()
        S.append(P.step(0, "PARSE", q, b.prog(t, 0)))
        qs.append(q)
    n = rng.choice([2, 2, 3])
    rs = []
    for k in range(n):
        r = b.res()
        S.append(P.step(0, "EXEC", r, qs[k % len(qs)], rng.choice(inputs)))
        rs.append([r, rng.choice([PULL_CAP, PULL_CAP, 6, 3])])
        for _ in range(rng.choice([0, 1, 2, 3])):
            S.append(P.step(0, "PULL", r))
            rs[-1][1] -= 1
    live = [x for x in rs]
    while live:
        x = rng.choice(live)
        for _ in range(rng.choice([1, 1, 2, 3])):
            if x[1] <= 0:
                break
            S.append(P.step(0, "PULL", x[0]))
            x[1] -= 1
        if x[1] <= 0:
            S.append(P.step(0, "CANCEL", x[0]))
            live.remove(x)
    return b.merge()
