"""Self-test of the seams, run by `./check --setup`."""
import errno
import sys

from . import plan as P
from . import proc


def run(exe):
    z = proc.Zsim(exe)
    ok = True

    def expect(name, cond, info=""):
        nonlocal ok
        print("selftest %-46s %s %s" % (name, "ok" if cond else "FAILED", info if not cond else ""))
        ok = ok and cond

    # 1. a healthy open goes through the wrapper and is tracked
    p = P.new_plan("C13")
    p["steps"] = [P.step(0, "OPEN", 0, P.hexenc("/sim/0/a1.out"), "cooked")]
    r = z.run(p)
    expect("virtual open reaches the wrapper", r.fin and r.ctr.get("opens", 0) >= 1
           and r.events[0].outcome == "ok", str(r.ctr))

    # 2. an injected EACCES reaches zw_value_init_dwarf as an error object
    p = P.new_plan("C13")
    p["files"] = [{"vpath": "/sim/0/a1.out", "backing": "", "errno": errno.EACCES}]
    p["steps"] = [P.step(0, "OPEN", 0, P.hexenc("/sim/0/a1.out"), "cooked")]
    r = z.run(p)
    expect("injected EACCES surfaces as an error", r.fin and r.events[0].outcome == "fail"
           and "ermission" in (r.events[0].text("msg") or ""), str(r.events[0].fields))

    # 3. a denied mmap is observed and absorbed
    p = P.new_plan("C13")
    p["knobs"]["deny_mmap"] = 1
    p["progs"] = [{"text": "entry", "mode": 0}]
    p["steps"] = [P.step(0, "OPEN", 0, P.hexenc("/sim/0/a1.out"), "cooked"),
                  P.step(0, "PARSE", 0, 0), P.step(0, "MKIN", 0, "V:0"),
                  P.step(0, "EXEC", 0, 0, 0), P.step(0, "PULL", 0)]
    r = z.run(p)
    expect("denied mmap observed, pread fallback works", r.fin and r.ctr.get("mmaps_denied", 0) >= 1
           and r.events[-1].outcome == "stack", str(r.ctr))

    # 4. the lazy alt-file open arrives in the wrapper
    expect("alt file opened lazily through the wrapper", r.ctr.get("opens_alt", 0) >= 1, str(r.ctr))

    # 5. an armed EIO fires
    p = P.clone(p)
    p["steps"][0]["io"] = [[0, 1]]
    r = z.run(p)
    expect("armed EIO on the first pread fires", r.ctr.get("io_eio", 0) >= 1, str(r.ctr))

    # 6. the scon hook is compiled in and quiet on a sane program
    p = P.new_plan("C13")
    p["progs"] = [{"text": "(1, 2, 3) [dup, 1 add] if (length == 2) then elem else ()", "mode": 0}]
    p["steps"] = [P.step(0, "PARSE", 0, 0), P.step(0, "MKIN", 0), P.step(0, "EXEC", 0, 0, 0),
                  P.step(0, "PULL", 0), P.step(0, "PULL", 0), P.step(0, "CANCEL", 0)]
    r = z.run(p)
    expect("scon hook live (census reports state types)",
           r.fin and "op_merge::state" in (r.events[-1].get("census") or ""), str(r.events[-1].fields))

    # 7. a run-time failure surfaces through zw_result_next
    p = P.new_plan("C13")
    p["progs"] = [{"text": "drop", "mode": 0}]
    p["steps"] = [P.step(0, "PARSE", 0, 0), P.step(0, "MKIN", 0), P.step(0, "EXEC", 0, 0, 0),
                  P.step(0, "PULL", 0)]
    r = z.run(p)
    expect("bomb surfaces as a failed pull", r.fin and r.events[-1].outcome == "fail", str(r.events[-1].fields))

    z.close()
    return 0 if ok else 2
