"""History oracles: a mirror of the executor's handle tables driven by the
recorded events, baselines from pristine processes, and the comparison of the
two (DESIGN.md 3.6: seq, parse-stable, epilogue; input-intact and the C13/C14
monitors run inside the child)."""
import hashlib

from . import plan as P

PULL_CAP_DEFAULT = 64


class Violation:
    def __init__(self, oracle, detail, plan, step=None, extra=None):
        self.oracle = oracle        # e.g. "seq", "parse-stable", "asan", "scon", ...
        self.detail = detail
        self.plan = plan            # the plan that exhibits it (history or baseline)
        self.step = step
        self.extra = extra or {}

    def klass(self):
        return self.oracle

    def __repr__(self):
        return "Violation(%s, %s)" % (self.oracle, self.detail[:200])


class Ctx:
    """One dwfl_context: the thing a Dwarf value and everything derived from
    it share."""
    _n = 0

    def __init__(self, path, raw):
        Ctx._n += 1
        self.id = Ctx._n
        self.path = path
        self.raw = raw
        self.tainted = False


def item_roots(indesc, acc):
    for it in indesc:
        if it[0] == "V":
            acc.add(it[1])
        elif it[0] in ("O", "OS"):
            item_roots(it[1][1], acc)
    return acc


def voc_of(ed):
    return ed[2] if len(ed) > 2 else None


def canon_exec(plan, ed, ren=None):
    """Hashable canonical form of an execution description; dwfl contexts are
    renumbered in order of first occurrence so that equal shapes compare
    equal."""
    if ren is None:
        ren = {}
    prog, indesc = ed[0], ed[1]
    pp = plan["progs"][prog]
    items = []
    for it in indesc:
        if it[0] == "L":
            items.append(("L", it[1]))
        elif it[0] == "V":
            ctx = it[1]
            if ctx.id not in ren:
                ren[ctx.id] = len(ren)
            items.append(("V", ren[ctx.id], ctx.path, ctx.raw))
        elif it[0] == "OS":
            items.append(("OS", canon_exec(plan, it[1], ren), it[2]))
        else:
            items.append(("O", canon_exec(plan, it[1], ren), it[2], it[3]))
    return (pp["text"], pp.get("mode", 0), tuple(items), voc_of(ed))


class BaselineBuilder:
    """Builds the sequential, fault-free plan whose execution in a pristine
    process defines the expected result sequence for an execution
    description."""

    def __init__(self, plan, pull_cap):
        self.src = plan
        self.cap = pull_cap
        self.bp = P.new_plan(plan["profile"])
        self.bp["files"] = P.clone(plan.get("files", []))
        kn = plan.get("knobs", {})
        self.bp["knobs"] = {"deny_mmap": kn.get("deny_mmap", 0), "leakcheck": 0,
                            "watchdog_s": kn.get("baseline_watchdog_s", 3)}
        self.progmap = {}
        self.ctxmap = {}
        self.vocmap = {}
        self.nq = self.ni = self.nr = self.no = self.nv = 0

    def prog(self, idx):
        if idx not in self.progmap:
            self.progmap[idx] = len(self.bp["progs"])
            self.bp["progs"].append(dict(self.src["progs"][idx]))
        return self.progmap[idx]

    def add(self, op, *args):
        self.bp["steps"].append(P.step(0, op, *args))
        return len(self.bp["steps"]) - 1

    def parse(self, q, ed):
        """PARSE with the vocabulary kind of the execution description."""
        voc = voc_of(ed)
        if voc is None:
            return self.add("PARSE", q, self.prog(ed[0]))
        if voc not in self.vocmap:
            self.vocmap[voc] = len(self.vocmap)
            self.add("VOC", self.vocmap[voc], *voc)
        return self.add("PARSE", q, self.prog(ed[0]), self.vocmap[voc])

    def build_input(self, indesc):
        items = []
        for it in indesc:
            if it[0] == "L":
                items.append(it[1])
            elif it[0] == "V":
                ctx = it[1]
                if ctx.id not in self.ctxmap:
                    v = self.nv
                    self.nv += 1
                    self.add("OPEN", v, P.hexenc(ctx.path), "raw" if ctx.raw else "cooked")
                    self.ctxmap[ctx.id] = v
                items.append("V:%d" % self.ctxmap[ctx.id])
            else:
                o = self.build_exec_keep(it[1], it[2])
                items.append("O:%d:%d" % (o, it[3]))
        i = self.ni
        self.ni += 1
        idx = self.add("MKIN", i, *items)
        return i, idx

    def build_exec_keep(self, ed, k, blind=False):
        q = self.nq
        self.nq += 1
        self.parse(q, ed)
        i, _ = self.build_input(ed[1])
        r = self.nr
        self.nr += 1
        self.add("EXEC", r, q, i)
        for _ in range(k):
            self.add("PULL", r)
        o = self.no
        self.no += 1
        if blind:
            self.add("PULL", r, o, "blind")
        else:
            self.add("PULL", r, o)
        return o

    def build(self, ed):
        # The target program is compiled first, in a process that has never
        # compiled anything.
        q = self.nq
        self.nq += 1
        self.i_parse = self.parse(q, ed)
        r = self.nr
        self.nr += 1
        if len(ed[1]) == 1 and ed[1][0][0] == "OS":
            # the whole output stack of another execution, handed on untouched
            # (the fresh run looks at the stack before handing it on: "that input"
            # is the values, however the caller got hold of them)
            osrc = self.build_exec_keep(ed[1][0][1], ed[1][0][2], blind=False)
            self.i_mkin = None
            self.i_exec = self.add("EXECO", r, q, osrc)
        else:
            i, self.i_mkin = self.build_input(ed[1])
            self.i_exec = self.add("EXEC", r, q, i)
        self.i_pull0 = len(self.bp["steps"])
        for _ in range(self.cap + 1):
            self.add("PULL", r)
        return self.bp


class Baseline:
    def __init__(self):
        self.ok = False             # baseline available
        self.why = ""
        self.parse = None           # (outcome, msg, err)
        self.mkin = None            # render
        self.exec = None            # (outcome, msg)
        self.pulls = []             # [(outcome, render, msg, err)]
        self.plan = None
        self.resp = None


def parse_sig(ev):
    return (ev.outcome, ev.get("msg", "-"), ev.get("err", "-"))


def pull_sig(ev):
    # The text of a failure is not part of the result sequence: libdw hands
    # back whatever its error cell holds when the failing call set nothing, so
    # the message of one and the same failure varies with what happened before
    # (found by the thorough tier on the unchanged tree: "invalid DWARF" fresh,
    # "invalid file" after the stale-error knob).  That a pull fails, and
    # which, is compared; what the message says is not.
    return (ev.outcome, ev.get("r", "-"), "-" if ev.outcome == "fail" else ev.get("msg", "-"), ev.get("err", "-"))


def show_sig(sig):
    out = []
    for x in sig:
        if isinstance(x, str) and x != "-" and len(x) % 2 == 0:
            try:
                out.append(P.hexdec(x).decode("latin-1"))
                continue
            except ValueError:
                pass
        out.append(str(x))
    return " | ".join(out)


class Baselines:
    """Cache of baselines for one plan environment (files + deny_mmap)."""

    # Baselines are deterministic functions of (environment, description), so
    # a worker may keep them across runs.
    SHARED = {}
    SHARED_MAX = 4000

    def __init__(self, zsim, plan, pull_cap):
        self.z = zsim
        self.plan = plan
        self.cap = pull_cap
        kn = plan.get("knobs", {})
        envkey = (repr(sorted((f["vpath"], f.get("backing", ""), f.get("errno", 0), repr(f.get("patches")))
                              for f in plan.get("files", []))),
                  kn.get("deny_mmap", 0), pull_cap, zsim.exe)
        if len(Baselines.SHARED) > Baselines.SHARED_MAX:
            Baselines.SHARED.clear()
        sh = Baselines.SHARED.setdefault(envkey, ({}, {}, {}))
        self.exec_cache, self.parse_cache, self.open_cache = sh
        if len(self.exec_cache) > 3000:
            self.exec_cache.clear()
        if len(self.parse_cache) > 3000:
            self.parse_cache.clear()
        self.runs = 0
        self.timeouts = 0
        import time as _t
        self.t0 = _t.time()
        self.wall_cap = float(plan.get("knobs", {}).get("baseline_wall_cap_s", 12))
        self.skipped_for_time = 0

    def remap(self, vpath, backing):
        """The file behind VPATH was replaced: baselines asked for from now on
        run with the new mapping (and are cached apart)."""
        self.plan = dict(self.plan)
        files = [f for f in P.clone(self.plan.get("files", [])) if f["vpath"] != vpath]
        files.append({"vpath": vpath, "backing": backing, "errno": 0})
        self.plan["files"] = files
        kn = self.plan.get("knobs", {})
        envkey = (repr(sorted((f["vpath"], f.get("backing", ""), f.get("errno", 0), repr(f.get("patches")))
                              for f in files)),
                  kn.get("deny_mmap", 0), self.cap, self.z.exe)
        sh = Baselines.SHARED.setdefault(envkey, ({}, {}, {}))
        self.exec_cache, self.parse_cache, self.open_cache = sh

    def over_budget(self):
        """Baselines of one run may not take for ever (a damaged file can make
        every one of them run into its watchdog); what is not computed is not
        judged, and is counted."""
        import time as _t
        if _t.time() - self.t0 > self.wall_cap:
            self.skipped_for_time += 1
            return True
        return False

    def _mini(self):
        bp = P.new_plan(self.plan["profile"])
        bp["files"] = P.clone(self.plan.get("files", []))
        kn = self.plan.get("knobs", {})
        bp["knobs"] = {"deny_mmap": kn.get("deny_mmap", 0), "leakcheck": 0,
                       "watchdog_s": kn.get("baseline_watchdog_s", 3)}
        return bp

    def parse(self, prog_idx, voc=None):
        pp = self.plan["progs"][prog_idx]
        key = (pp["text"], pp.get("mode", 0), voc)
        if key not in self.parse_cache and self.over_budget():
            b = Baseline()
            b.why = "time"
            return b
        if key not in self.parse_cache:
            bp = self._mini()
            bp["progs"] = [dict(pp)]
            if voc is None:
                bp["steps"] = [P.step(0, "PARSE", 0, 0)]
            else:
                bp["steps"] = [P.step(0, "VOC", 0, *voc), P.step(0, "PARSE", 0, 0, 0)]
            resp = self.z.run(bp)
            self.runs += 1
            b = Baseline()
            b.plan, b.resp = bp, resp
            if resp.fatal_class() is None and resp.events:
                b.ok = True
                b.parse = parse_sig(resp.events[-1])
            else:
                b.why = resp.fatal_class() or "no-events"
                if resp.viol and resp.viol[0] == "hang":
                    self.timeouts += 1
            self.parse_cache[key] = b
        return self.parse_cache[key]

    def open(self, path, raw):
        key = (path, raw)
        if key not in self.open_cache:
            bp = self._mini()
            bp["steps"] = [P.step(0, "OPEN", 0, P.hexenc(path), "raw" if raw else "cooked")]
            resp = self.z.run(bp)
            self.runs += 1
            b = Baseline()
            b.plan, b.resp = bp, resp
            if resp.fatal_class() is None and resp.events:
                b.ok = True
                b.parse = (resp.events[0].outcome, resp.events[0].get("msg", "-"))
            else:
                b.why = resp.fatal_class() or "no-events"
            self.open_cache[key] = b
        return self.open_cache[key]

    def execution(self, ed):
        key = canon_exec(self.plan, ed)
        if key not in self.exec_cache and self.over_budget():
            b = Baseline()
            b.why = "hang"      # treated like an unavailable baseline: unjudged
            return b
        if key not in self.exec_cache:
            bb = BaselineBuilder(self.plan, self.cap)
            bp = bb.build(ed)
            resp = self.z.run(bp)
            self.runs += 1
            b = Baseline()
            b.plan, b.resp = bp, resp
            fc = resp.fatal_class()
            if fc is None and len(resp.events) == len(bp["steps"]):
                b.ok = True
                ev = resp.events
                b.parse = parse_sig(ev[bb.i_parse])
                b.mkin = (ev[bb.i_mkin].outcome, ev[bb.i_mkin].get("r", "-")) if bb.i_mkin is not None else None
                b.exec = (ev[bb.i_exec].outcome, ev[bb.i_exec].get("msg", "-"))
                for e in ev[bb.i_pull0:]:
                    if e.outcome == "skip":
                        break
                    b.pulls.append(pull_sig(e))
            else:
                b.why = fc or "short"
                if resp.viol and resp.viol[0] == "hang":
                    self.timeouts += 1
            self.exec_cache[key] = b
        return self.exec_cache[key]


class RunStats:
    def __init__(self):
        self.steps = 0
        self.skipped = 0
        self.max_live = 0
        self.cancels_live = 0       # cancel of a result that was neither ended nor failed
        self.failed_pulls = 0
        self.pulls = 0
        self.execs = 0
        self.parses_ok = 0
        self.parses_rej = 0
        self.opens_ok = 0
        self.opens_fail = 0
        self.iofired = 0
        self.tainted_events = 0
        self.census_cancel = {}     # type -> count
        self.census_fail = {}
        self.probes = {}
        self.interleave_sig = ""
        self.live_fps = set()
        self.checked_pulls = 0
        self.unjudged = 0
        self.shared_q = 0

    def probe(self, name):
        self.probes[name] = self.probes.get(name, 0) + 1


def verify_history(plan, resp, baselines, check_seq=True, check_parse=False):
    """Walk the recorded events, mirror the handle tables, compare with
    baselines.  Returns (Violation or None, RunStats)."""
    st = RunStats()
    Q, V, I, R, O = {}, {}, {}, {}, {}
    VOCS, QVOC = {}, {}
    st.tables = (Q, V, I, R, O)
    prog_parsed = {}        # prog idx -> times compiled ok
    exec_seen_since_rej = False
    rej_between = False
    inter = []
    q_clients = {}

    def bad(oracle, ev, detail):
        return Violation(oracle, "step %d %s %s: %s" % (ev.idx, ev.op, " ".join(ev.args), detail),
                         plan, step=ev.idx)

    for ev in resp.events:
        if ev.outcome == "skip":
            st.skipped += 1
            continue
        st.steps += 1
        a = ev.args
        fired = ev.get("iofired") == "1"
        if fired:
            st.iofired += 1

        if ev.op == "REMAP":
            vp = P.hexdec(a[0]).decode("latin-1")
            baselines.remap(vp, P.hexdec(a[1]).decode("latin-1"))
            # what was opened before holds the old contents: not comparable
            # with a fresh open any more
            for c_ in V.values():
                if c_.path == vp:
                    c_.tainted = True
            for r_ in R.values():
                for c_ in r_.get("roots", []):
                    if c_.path == vp:
                        c_.tainted = True
                r_["remapped"] = True
            st.probe("file_replaced_in_mid_history")
        elif ev.op == "VOC":
            # parts whose zw_vocabulary_add failed (the same part twice) are not in
            badpart = int(ev.get("addfail", "0"))
            VOCS[int(a[0])] = tuple(p_ for k_, p_ in enumerate(a[1:], 1) if k_ != badpart)
            st.probe("vocabulary_built_by_plan")
        elif ev.op == "VOCADD":
            if ev.outcome == "ok":
                VOCS[int(a[0])] = VOCS[int(a[0])] + (a[1],)
                st.probe("vocabulary_extended_after_use")
        elif ev.op == "PARSE":
            q, p = int(a[0]), int(a[1])
            pvoc = VOCS.get(int(a[2])) if len(a) >= 3 else None
            if ev.outcome == "ok":
                Q[q] = p
                QVOC[q] = pvoc
                st.parses_ok += 1
                prog_parsed[p] = prog_parsed.get(p, 0) + 1
                if prog_parsed[p] == 2:
                    st.probe("second_compile_of_same_text")
            else:
                st.parses_rej += 1
                if st.execs > 0:
                    rej_between = True
            if check_seq or check_parse:
                b = baselines.parse(p, pvoc)
                if b.ok:
                    # without the sequence oracle (C14) only the verdict counts:
                    # compiled or rejected is a function of the bytes
                    if (parse_sig(ev) != b.parse) if check_seq else (ev.outcome != b.parse[0]):
                        return bad("parse-stable", ev, "fresh: %s ; here: %s"
                                   % (show_sig(b.parse), show_sig(parse_sig(ev)))), st
                else:
                    st.unjudged += 1

        elif ev.op == "OPEN":
            v = int(a[0])
            path = P.hexdec(a[1]).decode("latin-1")
            raw = a[2] == "raw"
            if ev.outcome == "ok":
                V[v] = Ctx(path, raw)
                st.opens_ok += 1
                if fired:
                    V[v].tainted = True
            else:
                st.opens_fail += 1
            if check_seq and not fired:
                b = baselines.open(path, raw)
                if b.ok:
                    # whether it opens, not what the message says (see pull_sig)
                    got = (ev.outcome, ev.get("msg", "-"))
                    if got[0] != b.parse[0]:
                        return bad("open-stable", ev, "fresh: %s ; here: %s"
                                   % (show_sig(b.parse), show_sig(got))), st

        elif ev.op == "CLONEV":
            if ev.outcome == "ok":
                V[int(a[0])] = V[int(a[1])]

        elif ev.op == "DROPV":
            V.pop(int(a[0]), None)

        elif ev.op == "MKIN":
            i = int(a[0])
            indesc = []
            for tok in a[1:]:
                if tok.startswith("t"):
                    tok = tok[1:]
                f = tok.split(":")
                if f[0] == "V":
                    indesc.append(("V", V[int(f[1])]))
                elif f[0] == "O":
                    o = O[int(f[1])]
                    indesc.append(("O", o["exec"], o["k"], int(f[2])))
                    if "T_CLOSURE" in P.hexdec(o["render"]).decode("latin-1"):
                        st.probe("closure_value_reused_as_input")
                    st.probe("derived_input")
                else:
                    indesc.append(("L", tok))
            I[i] = {"desc": tuple(indesc), "render": ev.get("r", "-")}

        elif ev.op == "DROPI":
            I.pop(int(a[0]), None)

        elif ev.op in ("EXEC", "EXECO"):
            r, q, i = int(a[0]), int(a[1]), int(a[2])
            if ev.op == "EXECO":
                src = O[i]
                idesc = (("OS", src["exec"], src["k"]),)
                st.probe("output_stack_handed_on_as_input")
            else:
                idesc = I[i]["desc"]
            ed = (Q[q], idesc) if QVOC.get(q) is None else (Q[q], idesc, QVOC[q])
            roots = item_roots(ed[1], set())
            if fired:
                for c in roots:
                    c.tainted = True
            st.execs += 1
            if rej_between:
                st.probe("rejected_parse_between_two_executions")
                rej_between = False
            q_clients.setdefault(q, set()).add(ev.client)
            if ev.outcome == "ok":
                R[r] = {"exec": ed, "k": 0, "roots": roots, "q": q}
                st.max_live = max(st.max_live, len(R))
            if check_seq and not any(c.tainted for c in roots):
                b = baselines.execution(ed)
                if b.ok:
                    if b.parse[0] != "ok":
                        # cannot happen: the history compiled it
                        return bad("parse-stable", ev, "fresh process rejects: %s"
                                   % show_sig(b.parse)), st
                    if ev.op == "EXEC" and b.mkin != ("ok", I[i]["render"]):
                        return bad("seq", ev, "input stack differs from the freshly built one: "
                                   "fresh %s ; here %s" % (show_sig(b.mkin), show_sig(("ok", I[i]["render"])))), st
                    got = (ev.outcome, ev.get("msg", "-"))
                    if got != b.exec:
                        return bad("seq", ev, "execute: fresh %s ; here %s"
                                   % (show_sig(b.exec), show_sig(got))), st
                elif b.why not in ("hang",):
                    # The sequential, fault-free baseline itself crashed.
                    return Violation("baseline-" + b.why,
                                     "fresh sequential run failed: " + (b.resp.viol[1] if b.resp.viol else b.why),
                                     b.plan, extra={"resp": b.resp}), st
                else:
                    st.unjudged += 1

        elif ev.op == "PULL":
            r = int(a[0])
            res = R[r]
            k = int(ev.get("k", res["k"]))
            st.pulls += 1
            if fired:
                for c in res["roots"]:
                    c.tainted = True
            if ev.outcome == "fail":
                st.failed_pulls += 1
                for t in (ev.get("census", "-") or "-").split(";"):
                    if t and t != "-":
                        st.census_fail[t] = st.census_fail.get(t, 0) + 1
            tainted = any(c.tainted for c in res["roots"]) or res.get("remapped")
            if tainted:
                st.tainted_events += 1
            elif check_seq:
                b = baselines.execution(res["exec"])
                if b.ok:
                    got = pull_sig(ev)
                    blind = len(a) >= 3 and a[2] == "blind" and ev.outcome == "stack"
                    if k >= len(b.pulls):
                        return bad("seq", ev, "pull %d: fresh run had only %d pulls (%s)"
                                   % (k, len(b.pulls), show_sig(b.pulls[-1]) if b.pulls else "none")), st
                    if blind and k < len(b.pulls) and b.pulls[k][0] == "stack":
                        got = b.pulls[k]        # kept unlooked at: only that it is a stack is known
                    if got != b.pulls[k]:
                        return bad("seq", ev, "pull %d: fresh %s ; here %s"
                                   % (k, show_sig(b.pulls[k]), show_sig(got))), st
                    st.checked_pulls += 1
                else:
                    st.unjudged += 1
            res["k"] = k + 1
            if ev.outcome == "stack" and len(a) >= 2:
                O[int(a[1])] = {"exec": res["exec"], "k": k, "render": ev.get("r", "-")}
            if ev.outcome in ("end",):
                res["ended"] = True
            if ev.outcome == "fail":
                res["failed"] = True

        elif ev.op == "CANCEL":
            r = int(a[0])
            res = R.pop(r, None)
            if ev.get("state") == "live":
                st.cancels_live += 1
                st.probe("cancel_after_%s_pulls" % (ev.get("pulls") if int(ev.get("pulls", "0")) < 3 else "3+"))
            elif ev.get("state") == "failed":
                st.probe("cancel_after_failed_pull")
            for t in (ev.get("census", "-") or "-").split(";"):
                if t and t != "-":
                    st.census_cancel[t] = st.census_cancel.get(t, 0) + 1

        elif ev.op == "DROPO":
            O.pop(int(a[0]), None)

        elif ev.op == "RENDER":
            o = O.get(int(a[0]))
            if o is not None and o["render"] == "-":
                o["render"] = ev.get("r", "-")      # first look at a stack that was kept unlooked at
            if o is not None and ev.get("r", "-") != o["render"]:
                return bad("input-intact", ev, "kept stack changed: was %s now %s"
                           % (show_sig((o["render"],)), show_sig((ev.get("r", "-"),)))), st

        if ev.op in ("EXEC", "PULL", "CANCEL", "PARSE", "DROPQ"):
            inter.append(ev.client)
        if ev.op in ("EXEC", "PULL", "CANCEL"):
            fp = tuple(sorted((plan["progs"][x["exec"][0]]["text"], x["k"]) for x in R.values()))
            st.live_fps.add(hashlib.sha1(repr(fp).encode("latin-1", "replace")).hexdigest()[:12])

    st.shared_q = sum(1 for s in q_clients.values() if len(s) > 1)
    if st.shared_q:
        st.probe("query_shared_by_several_clients")
    st.interleave_sig = hashlib.sha1(bytes(c % 256 for c in inter)).hexdigest()[:12]
    return None, st
