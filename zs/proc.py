"""Driver for one zsim worker process (the pristine image that forks a child
per plan)."""
import os
import subprocess
import tempfile

from . import plan as P

HERE = os.path.dirname(os.path.dirname(os.path.abspath(__file__)))


class Event:
    __slots__ = ("idx", "client", "op", "args", "outcome", "fields")

    def __init__(self, idx, client, op, args, outcome, fields):
        self.idx = idx
        self.client = client
        self.op = op
        self.args = args
        self.outcome = outcome      # ok rej fail end stack skip
        self.fields = fields        # dict str -> str (hex values decoded lazily)

    def get(self, k, default=None):
        return self.fields.get(k, default)

    def text(self, k):
        v = self.fields.get(k)
        if v is None:
            return None
        return P.hexdec(v).decode("latin-1")

    def sig(self):
        """Everything observable about this step, for fingerprints."""
        return (self.idx, self.op, tuple(self.args), self.outcome,
                tuple(sorted((k, v) for k, v in self.fields.items()
                             if k not in ("census",))))


class Response:
    def __init__(self):
        self.events = []
        self.viol = None        # (oracle, detail)
        self.ctr = {}
        self.api = {}
        self.fin = False
        self.exit = None
        self.sig = 0
        self.log = ""
        self.cli = None         # dict status/out/err for CLI plans
        self.teardown_err = ""
        self.raw_lines = 0
        self.notes = 0
        self.note_texts = []
        self.stdout_noise = None
        self.stderr_tail = ""

    def fatal_class(self):
        """Classify a run that did not finish cleanly; None if it did."""
        if self.viol is not None:
            return self.viol[0]
        if self.exit == 78:
            return "valgrind"
        if self.sig:
            return "signal:%d" % self.sig
        if self.exit == 77:
            return "sanitizer"
        if self.exit not in (0, None):
            return "exit:%d" % self.exit
        if not self.fin:
            return "truncated"
        return None


def parse_event(line):
    # E <idx> <client> <OP> args... = <outcome-ish tokens>
    toks = line.split()
    eq = toks.index("=")
    idx, client, op = int(toks[1]), int(toks[2]), toks[3]
    args = toks[4:eq]
    outcome = None
    fields = {}
    for t in toks[eq + 1:]:
        if "=" in t:
            k, v = t.split("=", 1)
            fields[k] = v
        elif outcome is None:
            outcome = t
    return Event(idx, client, op, args, outcome, fields)


class Zsim:
    def __init__(self, exe, tests_dir=None, tmpdir=None, extra_env=None, wrapper=None):
        self.exe = exe
        self.wrapper = wrapper or []
        self.extra_env = extra_env
        self.slow = None
        self.own_tmp = tmpdir is None
        self.big_stack = "/asan/" in exe
        self.plain = None
        os.makedirs(os.path.join(HERE, "build"), exist_ok=True)
        self.tmpdir = tmpdir or tempfile.mkdtemp(prefix="zsim-", dir=os.path.join(HERE, "build"))
        self.env = dict(os.environ)
        self.env["LC_ALL"] = "C"
        self.env.pop("DEBUGINFOD_URLS", None)
        self.env["ZSIM_REPORT_PATH"] = os.path.join(self.tmpdir, "san.%d" % os.getpid())
        self.env["UBSAN_OPTIONS"] = ("log_path=%s.ub:exitcode=77:print_stacktrace=1"
                                     % self.env["ZSIM_REPORT_PATH"])
        if tests_dir:
            self.env["ZSIM_TESTS_DIR"] = tests_dir
        self.env["ZSIM_TESTS_DIR"] = self.env.get("ZSIM_TESTS_DIR", os.path.join(os.environ.get("VERIF_REPO", "/repo"), "tests"))
        self.env["ZSIM_FIXTURES_DIR"] = os.path.join(HERE, "fixtures", "elf")
        if extra_env:
            self.env.update(extra_env)
        self.proc = None
        self.count = 0
        self.start()

    def start(self):
        self.errlog = open(os.path.join(self.tmpdir, "worker-stderr.%d" % os.getpid()), "ab")
        big = self.big_stack

        def limits():
            # The sanitized build has much larger stack frames.  Recursion whose
            # depth is bounded by the parser's own limits must not overflow just
            # because of the instrumentation, so that build gets a large stack;
            # the plain build keeps the default 8 MiB, which is what users have.
            import resource
            if big:
                try:
                    resource.setrlimit(resource.RLIMIT_STACK, (2 << 30, resource.RLIM_INFINITY))
                except (ValueError, OSError):
                    pass

        self.proc = subprocess.Popen(self.wrapper + [self.exe], stdin=subprocess.PIPE, stdout=subprocess.PIPE,
                                     stderr=self.errlog, env=self.env, bufsize=1 << 16,
                                     preexec_fn=limits)
        line = self.proc.stdout.readline()
        if not line.startswith(b"=ready"):
            raise RuntimeError("zsim did not start: %r" % line)

    def run_no_preinit(self, plan):
        """A worker that has not even initialised the static vocabularies:
        for plans that build vocabularies themselves."""
        if getattr(self, "nopre", None) is None:
            self.nopre = Zsim(self.exe, extra_env={"ZSIM_NO_PREINIT": "1"})
        return self.nopre.run(plan)

    def run_plain(self, plan):
        """The same plan on the non-sanitized build with the default stack."""
        if self.plain is None:
            self.plain = Zsim(self.exe.replace("/asan/", "/plain/"))
        return self.plain.run(plan)

    def run_slow_unwind(self, plan):
        """The same plan in a worker whose allocator records full (slow
        unwinder) stacks; used to attribute leaks reported with a truncated
        stack."""
        if self.slow is None:
            self.slow = Zsim(self.exe, extra_env={
                "ASAN_OPTIONS": "fast_unwind_on_malloc=0:malloc_context_size=30"})
        return self.slow.run(plan)

    def close(self):
        if self.slow is not None:
            self.slow.close()
            self.slow = None
        if self.plain is not None:
            self.plain.close()
            self.plain = None
        if getattr(self, "nopre", None) is not None:
            self.nopre.close()
            self.nopre = None
        if self.proc is not None:
            try:
                self.proc.stdin.close()
                self.proc.wait(timeout=5)
            except Exception:
                self.proc.kill()
            self.proc = None
            try:
                self.errlog.close()
            except Exception:
                pass
        if self.own_tmp and self.proc is None:
            import shutil
            shutil.rmtree(self.tmpdir, ignore_errors=True)

    def run(self, plan):
        """Execute one plan in a fresh child; returns Response."""
        self.count += 1
        pid = "r%d" % self.count
        text = P.to_text(plan, pid)
        try:
            self.proc.stdin.write(text.encode("latin-1"))
            self.proc.stdin.flush()
        except BrokenPipeError:
            self.close()
            self.start()
            self.proc.stdin.write(text.encode("latin-1"))
            self.proc.stdin.flush()
        r = Response()
        while True:
            raw = self.proc.stdout.readline()
            if not raw:
                # worker died: restart it, report infrastructure failure
                self.close()
                self.start()
                r.exit = -2
                return r
            line = raw.decode("latin-1").rstrip("\n")
            if not line:
                continue
            r.raw_lines += 1
            c = line[0]
            if c == "E" and line.startswith("E "):
                try:
                    r.events.append(parse_event(line))
                except (ValueError, IndexError):
                    pass
            elif line.startswith("=done "):
                for t in line.split()[2:]:
                    k, v = t.split("=")
                    if k == "exit":
                        r.exit = int(v)
                    elif k == "sig":
                        r.sig = int(v)
                return r
            elif line.startswith("=log "):
                r.log = P.hexdec(line[5:]).decode("latin-1", "replace") + r.log
            elif line.startswith("=stderr "):
                r.stderr_tail = P.hexdec(line[8:]).decode("latin-1", "replace")
                r.log = r.log + "\n" + r.stderr_tail
            elif line.startswith("viol "):
                t = line.split()
                r.viol = (t[1], P.hexdec(t[2]).decode("latin-1") if len(t) > 2 else "")
            elif line.startswith("note stdout "):
                r.stdout_noise = P.hexdec(line.split()[2])
            elif line.startswith("note "):
                r.notes += 1
                t = line.split()
                if len(t) > 2 and len(r.note_texts) < 5:
                    r.note_texts.append(P.hexdec(t[2]).decode("latin-1"))
            elif line.startswith("ctr "):
                t = line.split()
                r.ctr[t[1]] = int(t[2])
            elif line.startswith("api "):
                t = line.split()
                r.api[t[1]] = (int(t[2]), int(t[3]))
            elif line == "fin":
                r.fin = True
            elif line.startswith("cli "):
                d = {}
                for t in line.split()[1:]:
                    k, v = t.split("=", 1)
                    d[k] = v
                r.cli = {"status": int(d["status"]),
                         "out": P.hexdec(d["out"]), "err": P.hexdec(d["err"])}
            elif line.startswith("teardown-err "):
                r.teardown_err = P.hexdec(line.split()[1]).decode("latin-1")
            elif line.startswith("=error"):
                raise RuntimeError("zsim protocol error: " +
                                   P.hexdec(line.split()[1]).decode("latin-1"))
