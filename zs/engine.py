"""Run one plan, judge it with the oracles a profile enforces, gate and
minimise violations, write replay files."""
import hashlib
import json
import os
import re

from . import oracle as O
from . import plan as P

HERE = os.path.dirname(os.path.dirname(os.path.abspath(__file__)))

# Which oracles each property's check enforces (DESIGN.md 3.6, 4.x).
CRASH = ("asan", "ubsan", "abort", "signal", "sanitizer", "truncated", "exit", "valgrind")
ENFORCED = {
    "C12": ("seq", "parse-stable", "open-stable", "input-intact", "hang", "baseline") + CRASH,
    "C13": ("scon", "scon-live", "leak", "fd-leak", "fd-discipline", "divergence") + CRASH,
    "C14": ("contract", "hang-parse", "must-fail", "parse-stable") + CRASH,
    "C19": ("cli",) + CRASH,
}


def repo_frames(log, limit=6):
    """Innermost frames of the first stack in a sanitizer report that lie in
    the repository (function names only: line numbers move)."""
    frames = []
    started = False
    for line in log.splitlines():
        m = re.match(r"\s*#\d+ 0x[0-9a-f]+ in (\S.*?) (/\S+?):(\d+)", line)
        if m:
            started = True
            fn, path = m.group(1), m.group(2)
            if "/repo/" in path or "/verif/build/gen/" in path or re.search(r"/(libzwerg|dwgrep)/", path) \
                    or "lexer." in path or "parser." in path:
                fn = re.sub(r"\(.*", "", fn)
                frames.append(fn)
                if len(frames) >= limit:
                    break
        elif started and not line.strip():
            if frames:
                break
            started = False
    return frames


_dynsyms = {}


def dynsym_of(lib, off):
    """Exported function of a shared library that contains the offset."""
    import bisect
    import subprocess
    if lib not in _dynsyms:
        tab = []
        try:
            out = subprocess.run(["nm", "-D", "--defined-only", lib], stdout=subprocess.PIPE,
                                 stderr=subprocess.DEVNULL).stdout.decode()
            for ln in out.splitlines():
                f = ln.split()
                if len(f) >= 3 and f[1] in "TtWw":
                    tab.append((int(f[0], 16), f[2].split("@")[0]))
        except OSError:
            pass
        tab.sort()
        _dynsyms[lib] = tab
    tab = _dynsyms[lib]
    i = bisect.bisect_right(tab, (off, "\xff")) - 1
    return tab[i][1] if i >= 0 else "?"


def elfutils_crash_on_damaged_file(plan, resp, cl):
    """A segmentation fault whose innermost frame lies in libdw/libelf, in a
    run that reads a damaged file, in a straight-line use of the API: dwgrep
    does there what it does on a healthy file, and the fault is elfutils' own
    lack of robustness on malformed data -- not dwgrep's to answer for.  It
    *is* dwgrep's if the faulting call is a pull on a result set that has
    failed before (stale state handed back to libdw, F15)."""
    if not any(f.get("patches") for f in plan.get("files", [])):
        return False
    orc, klass, det = cl
    if orc not in CRASH or "SEGV" not in klass and "signal:11" not in klass and "signal_11" not in klass:
        return False
    m = re.search(r"^\s*#0 0x[0-9a-f]+ in \S+ \((/[^)+]+)\+0x[0-9a-f]+\)", resp.log or det or "", re.M)
    if not m or not re.search(r"/lib(dw|elf|z|lzma|bz2|zstd)[.-]", m.group(1)):
        return False
    k = len(resp.events)
    if k < len(plan["steps"]):
        s = plan["steps"][k]
        if s["op"] in ("PULL", "PULLX") and s["args"]:
            r = s["args"][0]
            for ev in resp.events:
                if ev.op in ("PULL", "PULLX") and ev.args and ev.args[0] == r and ev.outcome == "fail":
                    return False
    return True


# Allocations made inside these elfutils entry points on a path where the
# call *fails* belong to elfutils; dwgrep has no handle through which it
# could release them (DESIGN.md 4.2, "elfutils-internal leaks").
ELFUTILS_OWNED = ("dwfl_report_offline",)


def split_leak_records(log):
    recs, cur = [], None
    for line in log.splitlines():
        if re.match(r"(Direct|Indirect) leak of", line):
            cur = {"head": line, "frames": []}
            recs.append(cur)
        elif cur is not None:
            m = re.match(r"\s*#(\d+) 0x[0-9a-f]+\s+(?:in (\S.*?) (\S+?):(\d+)(?::\d+)?$|\((\S+)\+0x([0-9a-f]+)\))", line)
            if m:
                if m.group(2):
                    cur["frames"].append(("src", m.group(2), m.group(3), int(m.group(4))))
                else:
                    cur["frames"].append(("bin", m.group(5), int(m.group(6), 16)))
            elif not line.strip():
                cur = None
    return recs


def is_repo_frame(fr):
    return fr[0] == "src" and ("/repo/" in fr[2] or "/build/gen/" in fr[2]
                               or re.search(r"/(libzwerg|dwgrep)/", fr[2]) is not None)


_srclines = {}


def source_line(path, line):
    if path not in _srclines:
        try:
            _srclines[path] = open(path, encoding="latin-1").read().splitlines()
        except OSError:
            _srclines[path] = []
    ls = _srclines[path]
    return ls[line - 1] if 0 < line <= len(ls) else ""


def leak_is_elfutils_internal(rec):
    """True if the allocation was made inside libdw/libelf, called directly
    from a repo source line that calls one of ELFUTILS_OWNED."""
    fr = rec["frames"]
    for i, f in enumerate(fr):
        if is_repo_frame(f):
            if i == 0:
                return False
            for above in fr[:i]:
                if above[0] == "bin":
                    if not re.search(r"lib(dw|elf|z|lzma|bz2)[-.]", above[1]):
                        return False
                elif "libsanitizer" not in above[2]:
                    return False
            text = source_line(f[2], f[3])
            return any(name in text for name in ELFUTILS_OWNED)
        if f[0] == "src" and "/verif/sim/" in f[2]:
            return False
    return False


def attribute_leak(z, plan, resp):
    """Re-run with full allocation stacks and drop the records that belong to
    elfutils.  Returns (remaining records, ignored count, log)."""
    r2 = z.run_slow_unwind(plan)
    log = r2.log or resp.log or ""
    recs = split_leak_records(log)
    keep = [r for r in recs if not leak_is_elfutils_internal(r)]
    return keep, len(recs) - len(keep), log


def classify(resp, last_op=None):
    """Fatal outcome of a run -> (oracle, klass, detail); None if it finished."""
    fc = resp.fatal_class()
    if fc is None:
        return None
    log = resp.log or ""
    if resp.viol is not None:
        orc, det = resp.viol
        if orc == "scon":
            what = det.split(": offset")[0]
            return ("scon", "scon:" + what, det)
        if orc == "contract":
            m = re.match(r"(\S+): (.*)", det)
            api, what = (m.group(1), m.group(2)) if m else ("?", det)
            what = re.sub(r"exception escaped: .*", "exception escaped", what)
            return ("contract", "contract:%s:%s" % (api, what), det)
        if orc == "leak":
            fr = repo_frames(log)
            return ("leak", "leak:" + ">".join(fr[:4]), det + "\n" + log[:3000])
        if orc == "abort":
            m = re.search(r"Assertion `(.*?)' failed", det)
            k = "abort:" + (m.group(1)[:80] if m else det.strip().splitlines()[-1][:80] if det.strip() else "abort")
            return ("abort", k, det)
        if orc == "hang":
            if last_op == "PARSE":
                return ("hang-parse", "hang-parse", "watchdog fired inside a PARSE step")
            return ("hang", "hang:%s" % (last_op or "?"), "watchdog fired inside %s" % last_op)
        return (orc, orc, det)
    if resp.exit == 78:
        # valgrind (plain build under memcheck, thorough tier of C13)
        m = re.search(r"==\d+== ([A-Z][^\n]*)", log)
        what = re.sub(r"0x[0-9a-fA-F]+|\d+", "N", m.group(1))[:70] if m else "error"
        fr = re.findall(r"==\d+==\s+(?:at|by) 0x[0-9A-F]+: (\S+) \((?:in )?([^)]*)\)", log)
        repo = [f for f, where in fr if re.search(r"\.(cc|hh|yy|ll|h):\d+", where) and "/verif/sim" not in where]
        return ("valgrind", "valgrind:%s:%s" % (what, ">".join(repo[:2])), log[:5000])
    if resp.exit == 77:
        m = re.search(r"ERROR: AddressSanitizer: (\S+)", log)
        if m:
            fr = repo_frames(log)
            return ("asan", "asan:%s:%s" % (m.group(1), ">".join(fr[:2])), log[:4000])
        m = re.search(r"runtime error: (.*)", log)
        if m:
            msg = re.sub(r"0x[0-9a-f]+|\d+", "N", m.group(1))[:80]
            return ("ubsan", "ubsan:" + msg, log[:4000])
        if "LeakSanitizer" in log:
            fr = repo_frames(log)
            return ("leak", "leak:" + ">".join(fr[:4]), log[:4000])
        return ("sanitizer", "sanitizer:unknown", log[:4000])
    if resp.sig:
        return ("signal", "signal:%d" % resp.sig, "child killed by signal %d\n%s" % (resp.sig, log[:2000]))
    return (fc.split(":")[0], fc, log[:2000])


def fingerprint(resp, extra=""):
    h = hashlib.sha256()
    for ev in resp.events:
        h.update(repr(ev.sig()).encode("latin-1", "replace"))
    h.update(repr((resp.fatal_class(), resp.viol[0] if resp.viol else None, extra)).encode())
    if resp.cli is not None:
        h.update(repr((resp.cli["status"], resp.cli["out"], resp.cli["err"])).encode())
    return h.hexdigest()[:16]


class Outcome:
    def __init__(self):
        self.violation = None   # O.Violation with .oracle/.klass_str/.detail/.plan
        self.other = None       # violation of an oracle this profile does not enforce
        self.stats = None
        self.resp = None
        self.fp = ""
        self.baseline_runs = 0
        self.baseline_timeouts = 0
        self.discarded = None   # reason the run was not judged
        self.elfutils_leaks_ignored = 0


def last_op_of(plan, resp):
    n = len(resp.events)
    steps = plan["steps"]
    if n < len(steps):
        return steps[n]["op"]
    return None


def simulate(z, plan, profile=None):
    """One run = the history in a fresh child + the baselines it needs."""
    profile = profile or plan["profile"]
    out = Outcome()
    if plan.get("knobs", {}).get("plain_only") and "/asan/" in z.exe:
        # inputs too deep for the sanitized build to get through in reasonable
        # time: production-like build only
        if z.plain is None:
            z.run_plain({"profile": profile, "knobs": {}, "files": [], "progs": [], "steps": []})
        z = z.plain
    if any(s["op"] == "VOC" for s in plan["steps"]) and "ZSIM_NO_PREINIT" not in z.env:
        # history and baselines in children of a worker in which no vocabulary
        # was ever built or merged
        if getattr(z, "nopre", None) is None:
            z.run_no_preinit({"profile": profile, "knobs": {}, "files": [], "progs": [], "steps": []})
        z = z.nopre
    resp = z.run(plan)
    out.resp = resp
    if resp.exit == -2:
        out.discarded = "worker-died"
        return out
    enforced = ENFORCED[profile]
    cap = plan.get("knobs", {}).get("pull_cap", None)
    from . import hist
    cap = cap or hist.PULL_CAP
    bl = O.Baselines(z, plan, cap)

    cl = classify(resp, last_op_of(plan, resp))
    viol = None
    if cl is not None and profile != "C12" and elfutils_crash_on_damaged_file(plan, resp, cl):
        out.discarded = "crash-inside-elfutils-on-damaged-file"
        out.other = O.Violation(cl[0], cl[2], plan, step=len(resp.events))
        out.other.klass_str = "elfutils:" + cl[1]
        cl = None
    if cl is not None and cl[0] == "leak" and "leak" in enforced:
        keep, ignored, log = attribute_leak(z, plan, resp)
        if ignored:
            out.elfutils_leaks_ignored = ignored
        if not keep and ignored:
            cl = None
            resp.viol = None
            resp.fin = True
            resp.exit = 0
        elif keep:
            fr = []
            for f in keep[0]["frames"]:
                if is_repo_frame(f):
                    fr.append(re.sub(r"\(.*", "", f[1]))
            cl = ("leak", "leak:" + ">".join(fr[:4]), cl[2].split("\n")[0] + "\n" + log[:5000])
    if cl is not None:
        orc, klass, det = cl
        v = O.Violation(orc, det, plan, step=len(resp.events))
        v.klass_str = klass
        if profile == "C12" and (orc == "hang" or orc in CRASH):
            # Only a C12 violation if the same execution completes when run
            # fresh: a program that hangs or crashes a pristine process just
            # the same is not a history effect (it is C13/C14's business).
            v = judge_hang(z, plan, resp, bl, v)
            if v is None:
                out.discarded = "%s-also-in-fresh-run" % orc
        if v is not None:
            if any(orc == e or orc.startswith(e) for e in enforced):
                viol = v
            else:
                out.other = v

    check_seq = "seq" in enforced
    v2, st = O.verify_history(plan, resp, bl, check_seq=check_seq,
                              check_parse=("parse-stable" in enforced and bool(plan.get("knobs", {}).get("check_parse"))))
    out.stats = st
    out.baseline_runs = bl.runs
    out.baseline_timeouts = bl.timeouts
    if bl.skipped_for_time:
        out.discarded = out.discarded or "baselines-over-time-budget"
    if v2 is not None and viol is None:
        if v2.oracle.startswith("baseline-"):
            # the sequential fault-free baseline plan itself crashed
            bc = classify(v2.extra["resp"], None)
            if profile == "C12":
                out.discarded = "fresh-run-crashes"
                out.other = v2
                v2.klass_str = "fresh-run:" + (bc[1] if bc else v2.oracle)
            elif bc is not None and any(bc[0] == e or bc[0].startswith(e) for e in enforced):
                v2.oracle, v2.klass_str, v2.detail = bc[0], bc[1], bc[2]
                viol = v2
            else:
                out.other = v2
                v2.klass_str = v2.oracle
        else:
            v2.klass_str = v2.oracle
            viol = v2
    if viol is None and profile == "C14" and "/asan/" in z.exe \
            and any(len(p["text"]) > 1500 for p in plan["progs"]) and not plan["knobs"].get("plain_only"):
        # Deep or long inputs: also on the production-like build with the
        # default 8 MiB stack (unbounded recursion overflows there first).
        r2 = z.run_plain(plan)
        c2 = classify(r2, last_op_of(plan, r2))
        if c2 is not None and c2[0] in CRASH + ("hang-parse",):
            viol = O.Violation(c2[0], "non-sanitized build, default stack: " + c2[2], plan, step=len(r2.events))
            viol.klass_str = "plain:" + c2[1]
    if viol is None and "divergence" in enforced and plan.get("knobs", {}).get("differential") \
            and "/asan/" in z.exe and resp.fatal_class() is None:
        # The same plan on the non-sanitized -O2 build.  Both builds run the
        # same sources against the same libraries behind the same seam; what a
        # step yields may differ only if it depends on an uninitialised
        # automatic variable (0xFE pattern here, stack residue there), on
        # evaluation order, or on other undefined behaviour.
        r2 = z.run_plain(plan)
        out.baseline_runs += 1
        if r2.fatal_class() is None and len(r2.events) == len(resp.events):
            for ea, eb in zip(resp.events, r2.events):
                sa = (ea.op, ea.outcome, ea.get("r", "-"), ea.get("msg", "-"))
                sb = (eb.op, eb.outcome, eb.get("r", "-"), eb.get("msg", "-"))
                if sa != sb:
                    viol = O.Violation("divergence",
                                       "step %d %s %s: sanitized build (automatic variables pre-set to 0xFE): %s ; -O2 build: %s"
                                       % (ea.idx, ea.op, " ".join(ea.args), O.show_sig(sa[1:]), O.show_sig(sb[1:])), plan, step=ea.idx)
                    viol.klass_str = "divergence:" + ea.op
                    break
        elif r2.fatal_class() is not None:
            out.other = O.Violation("plain-build", r2.fatal_class(), plan)
            out.other.klass_str = "plain-build:" + str(r2.fatal_class())
    if viol is None and "must-fail" in enforced:
        for ev in resp.events:
            if ev.idx < len(plan["steps"]):
                exp = plan["steps"][ev.idx].get("expect")
                if exp and ev.outcome not in (exp, "skip"):
                    prog = "?"
                    viol = O.Violation("must-fail",
                                       "step %d %s %s: this pull must be '%s' (the failure is certain by construction), got '%s' %s"
                                       % (ev.idx, ev.op, " ".join(ev.args), exp, ev.outcome,
                                          ev.text("msg") or ev.text("r") or ""), plan, step=ev.idx)
                    viol.klass_str = "must-fail:%s-instead-of-%s" % (ev.outcome, exp)
                    break
    out.violation = viol
    out.fp = fingerprint(resp, viol.klass_str if viol else "")
    return out


def judge_hang(z, plan, resp, bl, v):
    """The run child hung or died.  Find what was in progress and ask a
    pristine process whether the same thing completes there; if it does not,
    this is no history effect."""
    n = len(resp.events)
    steps = plan["steps"]
    if n >= len(steps):
        return v
    s = steps[n]
    try:
        _, st = O.verify_history(plan, resp, bl, check_seq=False)
        Q, V, I, R, Okept = st.tables
        if s["op"] == "PARSE":
            b = bl.parse(int(s["args"][1]))     # (default vocabulary: good enough to tell a crash in the parser)
            return v if b.ok else None
        if s["op"] == "OPEN":
            b = bl.open(P.hexdec(s["args"][1]).decode("latin-1"), s["args"][2] == "raw")
            return v if b.ok else None
        if s["op"] == "EXEC":
            ed = (Q[int(s["args"][1])], I[int(s["args"][2])]["desc"])
        elif s["op"] == "PULL":
            ed = R[int(s["args"][0])]["exec"]
        else:
            return v
    except (KeyError, ValueError, IndexError):
        return v
    b = bl.execution(ed)
    if not b.ok:
        return None         # fresh run hangs (or dies) too: not a history effect
    return v


# ------------------------------------------------------------------ gate

def gate(z, plan, profile, want_klass, want_fp):
    """The same plan twice more in fresh children: same class, same
    fingerprint.  Returns (ok, message)."""
    for i in range(2):
        o = simulate(z, plan, profile)
        if o.violation is None:
            return False, "re-run %d did not violate" % i
        if o.violation.klass_str != want_klass:
            return False, "re-run %d class %s != %s" % (i, o.violation.klass_str, want_klass)
        if o.fp != want_fp:
            return False, "re-run %d fingerprint %s != %s" % (i, o.fp, want_fp)
    return True, ""


# ------------------------------------------------------------------ minimise

def _still(z, cand, profile, klass, budget):
    import time
    if budget[0] <= 0 or time.time() > budget[1]:
        budget[0] = 0
        return False
    budget[0] -= 1
    o = simulate(z, cand, profile)
    return o.violation is not None and o.violation.klass_str == klass


def minimise(z, plan, profile, klass, max_runs=400, max_seconds=None):
    """Greedy/ddmin shrinking while the same violation class persists."""
    import time
    if max_seconds is None:
        max_seconds = float(os.environ.get("VERIF_MINIMISE_S", "90"))
    budget = [max_runs, time.time() + max_seconds]
    best = P.clone(plan)

    def attempt(cand):
        nonlocal best
        if _still(z, cand, profile, klass, budget):
            best = cand
            return True
        return False

    # 1. whole clients
    clients = sorted(set(s["c"] for s in best["steps"]))
    for c in clients:
        if len(set(s["c"] for s in best["steps"])) <= 1:
            break
        cand = P.clone(best)
        cand["steps"] = [s for s in cand["steps"] if s["c"] != c]
        attempt(cand)

    # 2. ddmin over steps
    n = 2
    while len(best["steps"]) >= 2 and budget[0] > 0:
        steps = best["steps"]
        chunk = max(1, len(steps) // n)
        reduced = False
        i = 0
        while i < len(steps):
            cand = P.clone(best)
            cand["steps"] = steps[:i] + steps[i + chunk:]
            if cand["steps"] and attempt(cand):
                steps = best["steps"]
                reduced = True
            else:
                i += chunk
        if not reduced:
            if chunk == 1:
                break
            n = min(len(steps), n * 2)
        else:
            n = max(2, n - 1)

    # 3. fault attachments, overrides, knobs
    for idx, s in enumerate(best["steps"]):
        if s.get("io"):
            cand = P.clone(best)
            cand["steps"][idx].pop("io", None)
            attempt(cand)
    for idx in range(len(best.get("files", [])) - 1, -1, -1):
        cand = P.clone(best)
        del cand["files"][idx]
        attempt(cand)
    for k, dflt in (("poison", 85), ("cache_period", 0), ("cache_offset", 0), ("deny_mmap", 0), ("stale_dwerr", 0)):
        if best["knobs"].get(k, dflt) != dflt:
            cand = P.clone(best)
            cand["knobs"][k] = dflt
            attempt(cand)

    # 4. all on one client (schedule irrelevant)
    if len(set(s["c"] for s in best["steps"])) > 1:
        cand = P.clone(best)
        for s in cand["steps"]:
            s["c"] = 0
        attempt(cand)

    # 5. unused programs, then program text tokens
    used = set()
    for s in best["steps"]:
        if s["op"] == "PARSE" and len(s["args"]) >= 2:
            used.add(int(s["args"][1]))
    for pi in range(len(best["progs"])):
        if pi not in used and best["progs"][pi]["text"]:
            best["progs"][pi] = {"text": "", "mode": 0}
    for pi in sorted(used):
        toks = re.findall(r"\"(?:[^\"\\]|\\.)*\"|[A-Za-z0-9_@?!.]+|\s+|.", best["progs"][pi]["text"], re.S)
        i = 0
        while i < len(toks) and budget[0] > 0:
            if toks[i].isspace():
                i += 1
                continue
            cand = P.clone(best)
            nt = toks[:i] + toks[i + 1:]
            cand["progs"][pi]["text"] = "".join(nt)
            if attempt(cand):
                toks = nt
            else:
                i += 1
    return best, max_runs - budget[0]


# ------------------------------------------------------------------ replay files

def write_replay(prop, seed, run_index, viol, plan, fp, extra=None):
    d = os.path.join(HERE, "replays")
    os.makedirs(d, exist_ok=True)
    safe = re.sub(r"[^A-Za-z0-9_.-]+", "_", viol.klass_str)[:60]
    path = os.path.join(d, "%s-%d-%d-%s.json" % (prop, seed, run_index, safe))
    obj = {"property": prop, "seed": seed, "run_index": run_index, "oracle": viol.oracle,
           "class": viol.klass_str, "detail": viol.detail[:6000], "fingerprint": fp,
           "plan": plan}
    if extra:
        obj.update(extra)
    with open(path, "w") as f:
        json.dump(obj, f, indent=1, sort_keys=True)
    return path


def load_replay(path):
    with open(path) as f:
        return json.load(f)
