"""Known findings: /verif/known-findings.txt, committed, never written at run
time.

  known: property=<id> key=<regex over the violation class> [detail=<regex>] <text>
  fixed: property=<id> <commit> <text>

A `fixed:` line suppresses nothing."""
import os
import re

HERE = os.path.dirname(os.path.dirname(os.path.abspath(__file__)))
PATH = os.environ.get("VERIF_KNOWN_FILE") or os.path.join(HERE, "known-findings.txt")


def load(path=PATH):
    out = []
    try:
        lines = open(path).read().splitlines()
    except OSError:
        return out
    for ln in lines:
        ln = ln.strip()
        if not ln.startswith("known:"):
            continue
        m = re.match(r"known:\s+property=(\S+)\s+key=(\S+)\s+(?:detail=(\S+)\s+)?(.*)", ln)
        if not m:
            continue
        out.append({"property": m.group(1), "key": m.group(2), "detail": m.group(3),
                    "text": m.group(4)})
    return out


def match(known, prop, klass, detail):
    for k in known:
        if k["property"] != prop:
            continue
        if not re.fullmatch(k["key"], klass):
            continue
        if k["detail"] and not re.search(k["detail"], detail or "", re.S):
            continue
        return k
    return None
