"""Known findings: /verif/known-findings.txt, committed, never written at run
time.

  known: property=<id> key=<regex over the violation class> [detail=<regex>] <text>
  fixed: property=<id> <commit> <text>

A `fixed:` line suppresses nothing."""
import os
import re

HERE = os.path.dirname(os.path.dirname(os.path.abspath(__file__)))
PATH = os.environ.get("VERIF_KNOWN_FILE") or os.path.join(HERE, "known-findings.txt")


def load(path=PATH):
    out = []
    try:
        lines = open(path).read().splitlines()
    except OSError:
        return out
    for ln in lines:
        ln = ln.strip()
        if not ln.startswith("known:"):
            continue
        m = re.match(r"known:\s+property=(\S+)\s+key=(\S+)\s+(?:detail=(\S+)\s+)?(.*)", ln)
        if not m:
            continue
        out.append({"property": m.group(1), "key": m.group(2), "detail": m.group(3),
                    "text": m.group(4)})
    return out


def plan_signature(plan):
    """What identifies the input of a run: damaged/overridden files and the
    program texts, in one line (the `detail=` regex of a known finding is
    matched against the violation detail followed by this)."""
    if not plan:
        return ""
    files = ";".join("%s<-%s errno=%s patches=%s" % (f.get("vpath"), os.path.basename(f.get("backing", "") or ""),
                                                     f.get("errno", 0), f.get("patches") or [])
                     for f in plan.get("files", []))
    progs = " | ".join(sorted(set(p.get("text", "") for p in plan.get("progs", []) if p.get("text", "").strip())))
    return "\nPLAN files{%s} progs{%s}" % (files, progs)


def match(known, prop, klass, detail, plan=None):
    text = (detail or "") + plan_signature(plan)
    for k in known:
        if k["property"] != prop:
            continue
        if not re.fullmatch(k["key"], klass):
            continue
        if k["detail"] and not re.search(k["detail"], text, re.S):
            continue
        return k
    return None
