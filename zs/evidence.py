"""Evidence: everything here is counted by the machinery on the run that
writes the file (DESIGN.md 3.9)."""
import hashlib
import json
import os

from . import plan as P

HERE = os.path.dirname(os.path.dirname(os.path.abspath(__file__)))

RULES = {
    "C12": "One case = one seeded plan (programs, inputs, up to 4 client scripts, an explicit interleaving, "
           "attached faults) executed in a fresh child of a pristine process and compared step by step with "
           "baselines from other pristine children. distinct_nontrivial counts distinct (program-set hash, "
           "interleaving signature, fired-fault signature) triples among runs in which at least two result sets "
           "were live at once, or a result set was abandoned, or a fault fired.",
    "C13": "One case = one seeded plan run under ASan+UBSan with the scon lifecycle hook, LSan and descriptor "
           "accounting at the end. distinct_nontrivial counts distinct (program-set hash, interleaving signature, "
           "fired-fault signature) triples among runs with at least one abandoned result set, failed pull, "
           "rejected parse or fired environment fault.",
    "C14": "One case = one seeded plan whose programs come from the hostile generator (or carry bombs) with "
           "every fallible API call wrapped by the contract monitor. distinct_nontrivial counts distinct "
           "(program-set hash, failing-call signature) pairs among runs in which at least one fallible call "
           "actually failed.",
    "C19": "One case = one invocation of the real dwgrep main() in a forked child inside the simulated file "
           "layer, compared with a reference model fed by library-driver runs on the same files. "
           "distinct_nontrivial counts distinct (option set, query class, file-health vector, argument shape) "
           "tuples among invocations that had at least one file argument or -a/--a argument or a failing query.",
}

COMPONENTS = {
    "real": ["lexer.ll / parser.yy (regenerated from /repo)", "tree simplifier, build.cc, op engine, scon/layout",
             "all value and builtin code, DWARF/ELF vocabulary, caches", "dwgrep/dwgrep.cc main() and options.cc",
             "elfutils libelf/libdw/libdwfl 0.188 (shared libraries)", "allocator (ASan's)"],
    "seam": ["open/open64/stat/read/pread/pread64/mmap/mmap64/dup/close wrappers in the harness executable "
             "(forward to libc unless the plan says otherwise)",
             "DWGREP_VERIF hooks: scon shadow map + poison byte (H1), cache forget point (H2)"],
    "stub": ["none: dwgrep has no clock, network or threads to stub"],
}


class Agg:
    def __init__(self, prop):
        self.prop = prop
        self.d = {
            "evaluations": 0, "steps": 0, "skipped_steps": 0, "pulls": 0, "checked_pulls": 0,
            "execs": 0, "parses_ok": 0, "parses_rejected": 0, "opens_ok": 0, "opens_failed": 0,
            "failed_pulls": 0, "cancels_of_live_results": 0, "max_live_results": 0,
            "runs_with_2plus_live_results": 0, "runs_with_3plus_live_results": 0,
            "baseline_runs": 0, "discarded_baseline_timeout": 0, "unjudged_events": 0,
            "tainted_events_relaxed": 0, "discarded_runs": {}, "other_oracle_hits": {},
            "configs": {}, "faults_fired": {}, "probes": {}, "census_at_cancel": {},
            "census_at_failed_pull": {}, "api_calls": {}, "nontrivial": [], "interleavings": [],
            "live_set_fingerprints": [], "samples": [], "known_hits": {}, "scon_notes": 0,
            "cli": {}, "elfutils_internal_leak_records_ignored": 0,
        }
        self._nt = set()
        self._il = set()
        self._lf = set()

    def add(self, idx, plan, cfg, o):
        d = self.d
        d["evaluations"] += 1
        d["configs"][cfg] = d["configs"].get(cfg, 0) + 1
        if o.discarded:
            d["discarded_runs"][o.discarded] = d["discarded_runs"].get(o.discarded, 0) + 1
        if o.other is not None:
            k = getattr(o.other, "klass_str", o.other.oracle)
            d["other_oracle_hits"][k] = d["other_oracle_hits"].get(k, 0) + 1
        d["elfutils_internal_leak_records_ignored"] += getattr(o, "elfutils_leaks_ignored", 0)
        d["baseline_runs"] += o.baseline_runs
        d["discarded_baseline_timeout"] += o.baseline_timeouts
        resp = o.resp
        fired = {}
        if resp is not None:
            for k in ("io_eio", "io_short", "io_eintr", "mmaps_denied", "opens_failed_injected",
                      "cache_drops", "opens_alt", "close_ebadf_in_libs", "patched_bytes", "stale_dwerr_set"):
                v = resp.ctr.get(k, 0)
                if v:
                    fired[k] = v
            for a, (n, f) in resp.api.items():
                cur = d["api_calls"].get(a, [0, 0])
                d["api_calls"][a] = [cur[0] + n, cur[1] + f]
            d["scon_notes"] += getattr(resp, "notes", 0)
            if getattr(resp, "stdout_noise", None):
                k = "library-wrote-to-stdout"
                d["other_oracle_hits"][k] = d["other_oracle_hits"].get(k, 0) + 1
        st = o.stats
        if st is not None:
            d["steps"] += st.steps
            d["skipped_steps"] += st.skipped
            d["pulls"] += st.pulls
            d["checked_pulls"] += st.checked_pulls
            d["execs"] += st.execs
            d["parses_ok"] += st.parses_ok
            d["parses_rejected"] += st.parses_rej
            d["opens_ok"] += st.opens_ok
            d["opens_failed"] += st.opens_fail
            d["failed_pulls"] += st.failed_pulls
            d["cancels_of_live_results"] += st.cancels_live
            d["unjudged_events"] += st.unjudged
            d["tainted_events_relaxed"] += st.tainted_events
            d["max_live_results"] = max(d["max_live_results"], st.max_live)
            if st.max_live >= 2:
                d["runs_with_2plus_live_results"] += 1
            if st.max_live >= 3:
                d["runs_with_3plus_live_results"] += 1
            if st.cancels_live:
                fired["cancel"] = st.cancels_live
            if st.failed_pulls:
                fired["bomb_or_runtime_failure"] = st.failed_pulls
            if st.parses_rej:
                fired["reject"] = st.parses_rej
            if st.opens_fail:
                fired["open_failed"] = st.opens_fail
            if st.probes.get("file_replaced_in_mid_history"):
                fired["file_replaced"] = st.probes["file_replaced_in_mid_history"]
            if plan.get("knobs", {}).get("storm"):
                fired["storm_of_failures"] = 1
            for k, v in st.probes.items():
                d["probes"][k] = d["probes"].get(k, 0) + v
            for k, v in st.census_cancel.items():
                d["census_at_cancel"][k] = d["census_at_cancel"].get(k, 0) + v
            for k, v in st.census_fail.items():
                d["census_at_failed_pull"][k] = d["census_at_failed_pull"].get(k, 0) + v
            self._il.add(st.interleave_sig)
            self._lf |= st.live_fps
            nontrivial = self.is_nontrivial(st, fired)
            if hasattr(st, "cli_sig"):
                cli = plan.get("cli", {})
                if cli.get("files") or cli.get("args") or cli.get("qclass") in ("fail", "reject"):
                    self._nt.add(st.cli_sig)
                for o in cli.get("opts", []) or ["(none)"]:
                    d["cli"]["opt " + o] = d["cli"].get("opt " + o, 0) + 1
                d["cli"]["qmode " + str(cli.get("qmode"))] = d["cli"].get("qmode " + str(cli.get("qmode")), 0) + 1
                for f in cli.get("files", []):
                    k = "file " + f["health"] + ("" if f["health"] == "ok" else ":" + str(f.get("val")))
                    d["cli"][k] = d["cli"].get(k, 0) + 1
                d["cli"]["files=%d" % len(cli.get("files", []))] = d["cli"].get("files=%d" % len(cli.get("files", [])), 0) + 1
                d["cli"]["args=%d" % len(cli.get("args", []))] = d["cli"].get("args=%d" % len(cli.get("args", [])), 0) + 1
            elif nontrivial:
                ph = hashlib.sha1(repr(sorted(p["text"] for p in plan["progs"])).encode("latin-1", "replace")).hexdigest()[:10]
                fs = ",".join(sorted(fired))
                self._nt.add("%s/%s/%s" % (ph, st.interleave_sig, fs))
        for k, v in fired.items():
            d["faults_fired"][k] = d["faults_fired"].get(k, 0) + v
        if len(d["samples"]) < 3 and st is not None and (st.steps > 4 or hasattr(st, "cli_sig")):
            d["samples"].append({"run_index": idx, "config": cfg, "plan": plan})

    def is_nontrivial(self, st, fired):
        if self.prop == "C12":
            return st.max_live >= 2 or st.cancels_live > 0 or bool(fired)
        if self.prop == "C13":
            return st.cancels_live > 0 or st.failed_pulls > 0 or st.parses_rej > 0 or bool(fired)
        if self.prop == "C14":
            return st.failed_pulls > 0 or st.parses_rej > 0 or st.opens_fail > 0
        return True

    def known_hit(self, kf, idx):
        key = kf["key"] + "|" + (kf["detail"] or "")
        ent = self.d["known_hits"].setdefault(key, {"text": kf["text"], "count": 0, "first_run_index": idx})
        ent["count"] += 1

    def to_dict(self):
        d = dict(self.d)
        d["nontrivial"] = sorted(self._nt)
        d["interleavings"] = sorted(self._il)
        d["live_set_fingerprints"] = sorted(self._lf)
        return d


def merge(aggs):
    if not aggs:
        return {}
    out = None
    for a in aggs:
        if not a:
            continue
        if out is None:
            out = json.loads(json.dumps(a))
            continue
        for k, v in a.items():
            if k in ("nontrivial", "interleavings", "live_set_fingerprints"):
                out[k] = sorted(set(out.get(k, [])) | set(v))
            elif k == "samples":
                out[k] = (out.get(k, []) + v)[:4]
            elif k == "max_live_results":
                out[k] = max(out.get(k, 0), v)
            elif k == "known_hits":
                for kk, vv in v.items():
                    if kk in out[k]:
                        out[k][kk]["count"] += vv["count"]
                        out[k][kk]["first_run_index"] = min(out[k][kk]["first_run_index"], vv["first_run_index"])
                    else:
                        out[k][kk] = vv
            elif k == "api_calls":
                for kk, vv in v.items():
                    cur = out[k].get(kk, [0, 0])
                    out[k][kk] = [cur[0] + vv[0], cur[1] + vv[1]]
            elif isinstance(v, dict):
                o = out.setdefault(k, {})
                for kk, vv in v.items():
                    if isinstance(vv, (int, float)):
                        o[kk] = o.get(kk, 0) + vv
                    else:
                        o.setdefault(kk, vv)
            elif isinstance(v, (int, float)):
                out[k] = out.get(k, 0) + v
    return out or {}


def write(prop, tier, seed, m, wall, violations=0, det=None, note=None):
    os.makedirs(os.path.join(HERE, "evidence"), exist_ok=True)
    n = m.get("evaluations", 0)
    cov = {
        "evaluations": n,
        "distinct_nontrivial": len(m.get("nontrivial", [])),
        "rule": RULES[prop],
        "samples": m.get("samples", [])[:3] or [{"note": "no run completed"}],
        "exhaustive": False,
        "runs_per_hour": int(n / max(wall, 1e-9) * 3600),
        "api_steps": m.get("steps", 0),
        "simulated_time": "n/a: dwgrep has no clock; logical time = API calls (api_steps)",
        "distinct_interleavings": len(m.get("interleavings", [])),
        "distinct_interleavings_measure": "distinct sequences of client ids over the steps that touch queries/results",
        "distinct_live_set_fingerprints": len(m.get("live_set_fingerprints", [])),
        "distinct_live_set_measure": "distinct multisets of (program, pulls so far) over live result sets, taken after every EXEC/PULL/CANCEL",
        "faults_fired": m.get("faults_fired", {}),
        "configs": m.get("configs", {}),
        "probes": m.get("probes", {}),
        "op_state_types_live_at_cancel": m.get("census_at_cancel", {}),
        "op_state_types_live_at_failed_pull": m.get("census_at_failed_pull", {}),
        "api_calls_and_failures": m.get("api_calls", {}),
        "counters": {k: m.get(k, 0) for k in (
            "pulls", "checked_pulls", "execs", "parses_ok", "parses_rejected", "opens_ok", "opens_failed",
            "failed_pulls", "cancels_of_live_results", "max_live_results", "runs_with_2plus_live_results",
            "runs_with_3plus_live_results", "baseline_runs", "discarded_baseline_timeout", "unjudged_events",
            "tainted_events_relaxed", "skipped_steps", "scon_notes",
            "elfutils_internal_leak_records_ignored")},
        "discarded_runs": m.get("discarded_runs", {}),
        "other_oracle_hits_not_enforced_by_this_check": m.get("other_oracle_hits", {}),
        "known_findings_seen": m.get("known_hits", {}),
        "determinism": det if det is not None else {"note": "not sampled in this run"},
        "components": COMPONENTS,
    }
    if m.get("cli"):
        cov["cli"] = m["cli"]
    if note:
        cov["note"] = note
    ev = {
        "property_id": prop, "tier": tier, "seed": seed, "level": "exploration",
        "coverage": cov,
        "assumptions": [
            "seeded sampling of plans, not enumeration: a clean batch is evidence, not proof",
            "the oracle for result sequences is the repo's own code in a process that never compiled or ran "
            "anything else; a defect that shows identically in a fresh run is invisible to C12",
            "elfutils 0.188 and libstdc++ are trusted; allocation failure is not injected (DESIGN.md 7)",
        ],
        "wall_s": round(wall, 2),
        "violations": violations,
    }
    path = os.path.join(HERE, "evidence", "%s.json" % prop)
    with open(path, "w") as f:
        json.dump(ev, f, indent=1, sort_keys=True, default=str)
    return path
