"""Profile dispatch: how a run index becomes a plan, and how a plan is run
and judged, for each claimed property."""
import os

from . import engine as E
from . import hist


def make_plan(prop, rng, idx, tier, variant="asan"):
    """Returns (plan, config name).  Fault-free and fault-injecting
    configurations are separate batches, chosen by the run index."""
    if prop == "C12":
        if idx % 25 == 11:
            plan = hist.gen_sole_survivor(rng, "C12")
            plan["knobs"]["scon_fatal"] = 0
            return plan, "sole-survivor"
        if idx % 25 in (9, 21):
            plan = hist.gen_twin_walks(rng, "C12")
            plan["knobs"]["scon_fatal"] = 0
            return plan, "twin-walks"
        if idx % 25 == 18:
            plan = hist.gen_flavours(rng, "C12")
            plan["knobs"]["scon_fatal"] = 0
            return plan, "value-flavours"
        if idx % 25 == 4:
            plan = hist.gen_replaced_file(rng, "C12")
            plan["knobs"]["scon_fatal"] = 0
            return plan, "replaced-file"
        faults = (idx % 5) >= 3
        damaged = (idx % 20) in (7, 17)
        plan = hist.gen_history(rng, "C12", faults=faults, reuse=(variant == "plain"), damaged=damaged)
        plan["knobs"]["scon_fatal"] = 0
        if variant == "plain":
            plan["knobs"]["leakcheck"] = 0
        return plan, ("damaged-file" if damaged else "faults" if faults else "nofault")
    if prop == "C13":
        m = idx % 10
        if idx % 20 == 13:
            return hist.gen_sole_survivor(rng, "C13"), "sole-survivor"
        if idx % 40 == 26:
            return hist.gen_replaced_file(rng, "C13"), "replaced-file"
        if idx % 40 == 6:
            return hist.gen_flavours(rng, "C13"), "value-flavours"
        if idx % 40 in (35, 15):
            return hist.gen_odd_file(rng, "C13"), "odd-file"
        if idx % 40 == 21:
            return hist.gen_twin_walks(rng, "C13"), "twin-walks"
        if idx % 20 == 9 and variant != "vg":
            # the CLI is one of the executions the property quantifies over
            from . import cli
            plan, cfg = cli.make_plan(rng, idx)
            return plan, "cli"
        if (idx % 20 in (3, 16) or os.environ.get("VERIF_FORCE_CFG") == "damaged") and variant != "vg":
            # libdw fails half-way: whatever was being built at that moment
            # (a cache entry, a half-filled table) must not be kept for later
            return hist.gen_history(rng, "C13", damaged=True), "damaged-file"
        if variant == "vg":
            # under memcheck: no LSan, no bombs at huge cost; short histories
            plan = hist.gen_history(rng, "C13", faults=(m >= 8), sweep=(4 <= m < 7))
            plan["knobs"]["leakcheck"] = 0
            plan["knobs"]["watchdog_s"] = 120
            return plan, "history"
        if m < 4:
            plan = hist.gen_history(rng, "C13", faults=False)
            if m == 1 and variant == "asan":
                # also on the -O2 build: what a step yields must not differ (divergence oracle)
                plan["knobs"]["differential"] = 1
                return plan, "history+divergence"
            return plan, "history"
        if m < 7:
            return hist.gen_history(rng, "C13", sweep=True), "sweep"
        if m < 9:
            return hist.gen_history(rng, "C13", faults=True), "faults"
        return hist.gen_history(rng, "C13", hostile=True, faults=True), "hostile"
    if prop == "C14":
        plan, cfg = _make_c14(rng, idx)
        if not is_cli(plan):
            # the lifecycle hook records and carries on here: C14 wants to see
            # what the process does next (a crash is C14's, the lifecycle is C13's)
            plan["knobs"]["scon_fatal"] = 0
        return plan, cfg
    if prop == "C19":
        from . import cli
        return cli.make_plan(rng, idx)
    raise ValueError(prop)


def _make_c14(rng, idx):
    if True:
        m = idx % 10
        if m < 6:
            return hist.gen_history(rng, "C14", hostile=True, faults=(m >= 4)), "hostile"
        if idx % 40 == 26:
            return hist.gen_odd_file(rng, "C14"), "odd-file"
        if m < 7:
            return hist.gen_history(rng, "C14", sweep=True), "bomb-sweep"
        if m < 8:
            if (idx // 10) % 2 == 0:
                from . import cli
                return cli.make_failing_plan(rng, idx)
            return hist.gen_mustfail(rng), "must-fail"
        return hist.gen_history(rng, "C14", faults=True), "faults"
    if prop == "C19":
        from . import cli
        return cli.make_plan(rng, idx)
    raise ValueError(prop)


def cli_mode(prop):
    """How a CLI run is judged: by the whole model (C19), by the run-time
    failure clause only (C14), or by the sanitizers and the leak and
    descriptor censuses only (C13)."""
    return {"C19": False, "C13": "memory"}.get(prop, True)


def is_cli(plan):
    return bool(plan.get("knobs", {}).get("cli"))


def run(z, plan, prop):
    if prop == "C19" or is_cli(plan):
        from . import cli
        return cli.simulate(z, plan, clause_only=cli_mode(prop))
    return E.simulate(z, plan, prop)


def gate(z, plan, prop, klass, fp):
    if prop == "C19" or is_cli(plan):
        from . import cli
        return cli.gate(z, plan, klass, fp, clause_only=cli_mode(prop))
    return E.gate(z, plan, prop, klass, fp)


def minimise(z, plan, prop, klass):
    if prop == "C19" or is_cli(plan):
        from . import cli
        return cli.minimise(z, plan, klass, clause_only=cli_mode(prop))
    return E.minimise(z, plan, prop, klass)
